#!/usr/bin/env python3
"""Seam audit (DESIGN.md §1.1): re-derives, from /repo's current working tree,
which sources of nondeterminism or faults the library touches. Informational:
it backs the not-applicable answers and lists any *new* seam so the decisions
of DESIGN.md §3 can be re-examined; it never raises a VIOLATION.

usage: seam_audit.py <repo> <out.json>"""
import json, os, re, sys

repo = sys.argv[1] if len(sys.argv) > 1 else "/repo"
out = sys.argv[2] if len(sys.argv) > 2 else "-"

PATTERNS = {
    "threads_tasks_locks_atomics": r"\b(std::thread|thread::spawn|thread_local!|Atomic[A-Z]\w*|Mutex|RwLock|Condvar|mpsc|async\s+fn|\.await\b|spin_loop)",
    "global_or_interior_mutable_state": r"\b(static\s+mut|static\s+[A-Z_]+\s*:\s*(?!&'static\s+str|\[?&?\s*(?:str|u8|u16|u32|u64|u128|i8|i16|i32|i64|i128))|RefCell|\bCell<|UnsafeCell|OnceCell|OnceLock|lazy_static)",
    "clocks_timers": r"\b(Instant|SystemTime|Duration|sleep|timeout|deadline)\b",
    "files_sockets_io": r"\b(std::fs|std::net|std::io|File::|TcpStream|UdpSocket|Read\s+for|Write\s+for|io::Read|io::Write)\b",
    "heap_allocation": r"\b(alloc::|Box<|Box::new|Vec<|Vec::|String::|vec!|format!|to_string\(\)|to_vec\(\))",
    "unsafe": r"\bunsafe\b",
    "randomness_or_hash_order": r"\b(rand::|thread_rng|HashMap|HashSet|RandomState)\b",
    "ffi": r"extern\s+\"C\"",
    "caller_supplied_codec_stream": r"\b(Encode|Decode|MaxEncodedLen|codec::)\b",
    "caller_supplied_serde_stream": r"\b(Serializer|Deserializer|SeqAccess|MapAccess)\b",
    "caller_supplied_fmt_sink": r"\bFormatter\b",
    "caller_supplied_hasher": r"\bHasher\b",
    "caller_supplied_iterator": r"\bIterator\b",
    "data_dependent_loops": r"^\s*(while|loop)\b",
}

def strip(src):
    """Blank out comments (incl. doc comments, which hold the doctests) and string literals
    (the doctest text generated inside macros), keeping line numbers; then cut the
    #[cfg(test)] module at the end of the file."""
    out = []
    i, n = 0, len(src)
    while i < n:
        c = src[i]
        two = src[i:i + 2]
        if two == "//":
            j = src.find("\n", i)
            i = n if j < 0 else j
        elif two == "/*":
            depth, i = 1, i + 2
            while i < n and depth:
                if src[i:i + 2] == "/*":
                    depth += 1; i += 2
                elif src[i:i + 2] == "*/":
                    depth -= 1; i += 2
                else:
                    if src[i] == "\n":
                        out.append("\n")
                    i += 1
        elif c == "r" and re.match(r'r#*"', src[i:i + 12]) and (i == 0 or not (src[i - 1].isalnum() or src[i - 1] == "_")):
            m = re.match(r'r(#*)"', src[i:i + 12])
            close = '"' + m.group(1)
            j = src.find(close, i + len(m.group(0)))
            j = n if j < 0 else j + len(close)
            out.append('""' + "\n" * src[i:j].count("\n"))
            i = j
        elif c == '"':
            j = i + 1
            while j < n and src[j] != '"':
                j += 2 if src[j] == "\\" else 1
            j = min(j + 1, n)
            out.append('""' + "\n" * src[i:j].count("\n"))
            i = j
        elif c == "'" and re.match(r"'(\\.[^']*|[^'\\])'", src[i:i + 12]):
            m = re.match(r"'(\\.[^']*|[^'\\])'", src[i:i + 12])
            out.append("' '")
            i += len(m.group(0))
        else:
            out.append(c)
            i += 1
    src = "".join(out)
    m = re.search(r"#\[cfg\(test\)\]\s*(#\[[^\]]*\]\s*)*mod\s+\w+", src)
    if m:
        src = src[:m.start()]
    return src

res = {k: [] for k in PATTERNS}
files = []
for root, _, fs in os.walk(os.path.join(repo, "src")):
    for f in sorted(fs):
        if f.endswith(".rs"):
            files.append(os.path.join(root, f))
files.sort()
nlines = 0
for path in files:
    body = strip(open(path, encoding="utf-8", errors="replace").read())
    for no, line in enumerate(body.split("\n"), 1):
        nlines += 1
        code = line
        for k, pat in PATTERNS.items():
            if re.search(pat, code):
                res[k].append("%s:%d" % (os.path.relpath(path, repo), no))

absent = ["threads_tasks_locks_atomics", "global_or_interior_mutable_state", "clocks_timers",
          "files_sockets_io", "heap_allocation", "unsafe", "randomness_or_hash_order", "ffi"]
summary = {
    "repo": repo,
    "files_scanned": len(files),
    "non_test_code_lines": nlines,
    "hits": {k: {"count": len(v), "where": v[:12]} for k, v in res.items()},
    "expected_absent_kinds_with_hits": [k for k in absent if res[k]],
    "note": "kinds in expected_absent_kinds_with_hits mean the crate gained a seam since DESIGN.md §1.1 was written (or a benign textual match: read the locations); the not-applicable decisions of §3 must then be re-examined. Informational only.",
}
txt = json.dumps(summary, indent=1)
if out == "-":
    print(txt)
else:
    open(out, "w").write(txt)
    print("seam audit written to", out)
