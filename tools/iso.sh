#!/bin/sh
# usage: iso.sh <slot> [--copy-back-seeded] -- <command ...>
# Runs <command> in a private mount namespace in which /repo is a standalone clone of /repo's HEAD
# and /verif is a copy of /verif's working tree (build output included, so builds are warm).
# For seeded-change trials (tools/run_seeded.py, tools/try_patch.sh): patches are applied to the
# private /repo, so the real /repo is never touched and the registered checks, `vp check` and my
# own builds can run meanwhile. Not a registered command; scratch lives under /var/tmp/iso/<slot>
# (remove with: rm -rf /var/tmp/iso/<slot>).
set -u
SLOT="${1:?slot}"; shift
BACK=0
if [ "${1:-}" = "--copy-back-seeded" ]; then BACK=1; shift; fi
[ "${1:-}" = "--" ] && shift
BASE="/var/tmp/iso/$SLOT"
mkdir -p "$BASE"
if [ -n "$(git -C /repo status --porcelain --untracked-files=no)" ]; then echo "iso: /repo has local changes; the clone is of HEAD only" >&2; fi
if [ ! -d "$BASE/repo/.git" ]; then
  git clone -q /repo "$BASE/repo" || exit 3
else
  git -C "$BASE/repo" checkout -q -- . && git -C "$BASE/repo" clean -fdq src && git -C "$BASE/repo" fetch -q origin && git -C "$BASE/repo" reset -q --hard origin/HEAD 2>/dev/null || git -C "$BASE/repo" reset -q --hard "$(git -C /repo rev-parse HEAD)" || exit 3
fi
rsync -a --delete --exclude 'sim/target-miri' --exclude '.git' /verif/ "$BASE/verif/"; RS=$?; [ $RS = 0 ] || [ $RS = 24 ] || exit 3
CMD="$*"
touch "$BASE/.start"
unshare -m sh -c "mount --bind '$BASE/repo' /repo && mount --bind '$BASE/verif' /verif && cd /verif && $CMD"
RC=$?
if [ "$BACK" = 1 ]; then
  # only what this run wrote: a slot's copy of everything else is as old as the slot's start, and copying
  # it back would undo what other slots have recorded meanwhile
  (cd "$BASE/verif/seeded" && find . \( -name meta.json -o -name RESULTS.md \) -newer "$BASE/.start" > "$BASE/.touched")
  rsync -a --files-from="$BASE/.touched" "$BASE/verif/seeded/" /verif/seeded/
fi
exit $RC
