#!/usr/bin/env python3
"""Runs the registered C10 quick check against every seeded change under /verif/seeded
(applying each patch to /repo and ALWAYS restoring it), records what happened in each
meta.json under "verif_result" and writes /verif/seeded/RESULTS.md.
usage: run_seeded.py [quick|thorough] [--results-only] [id ...]
A change that is expected to violate the property is first tried against the main build configuration
alone (C10_VARIANTS=main: one build instead of three); only if that stays quiet is the full registered
command run. Changes under which the property holds always get the full command.
--results-only rewrites RESULTS.md from the meta.json files without running anything."""
import json, os, re, subprocess, sys, time
SEEDED = "/verif/seeded"
tier = sys.argv[1] if len(sys.argv) > 1 and sys.argv[1] in ("quick", "thorough") else "quick"
results_only = "--results-only" in sys.argv
main_only = "--main-only" in sys.argv   # every trial against the main build configuration alone (a faster regression pass)
only = [a for a in sys.argv[1:] if a not in ("quick", "thorough", "--results-only", "--main-only")]

def sh(cmd, **kw):
    return subprocess.run(cmd, shell=True, capture_output=True, text=True, **kw)

if sh("git -C /repo status --porcelain --untracked-files=no").stdout.strip():
    sys.exit("refusing: /repo has local changes")
rows = []
for name in sorted(os.listdir(SEEDED)):
    d = os.path.join(SEEDED, name)
    p = os.path.join(d, "patch.diff")
    if not os.path.isfile(p) or (only and name not in only):
        continue
    out = f"/var/tmp/c10-trials/{name}"
    os.makedirs(out, exist_ok=True)
    meta = json.load(open(os.path.join(d, "meta.json")))
    t0 = time.time()
    if results_only:
        res = meta.get("verif_result", {})
    else:
      try:
          if sh(f"git -C /repo apply {p}").returncode != 0:
              res = {"applies": False}
          else:
              env = dict(os.environ, C10_EVIDENCE=f"{out}/evidence.json", C10_REPLAY_DIR=f"{out}/replays")
              sh(f"rm -rf {out}/replays")
              expect_violation = meta.get("breaks_property", True) and not (meta.get("needs_tier") == "thorough" and tier == "quick")
              stage = "full"
              if expect_violation:
                  r = sh(f"/verif/check C10 {tier}", env=dict(env, C10_VARIANTS="main"), cwd="/verif")
                  stage = "main configuration only (it reported; the other configurations were not run)"
              if main_only and not expect_violation:
                  r = sh(f"/verif/check C10 {tier}", env=dict(env, C10_VARIANTS="main"), cwd="/verif")
                  stage = "main configuration only (regression pass with --main-only)"
              elif (not expect_violation or r.returncode != 1) and not (main_only and expect_violation):
                  r = sh(f"/verif/check C10 {tier}", env=env, cwd="/verif")
                  stage = "full"
              first = next((l for l in r.stdout.splitlines() if l.startswith("violation in run")), "")
              m = re.match(r"violation in run (\d+) .*?: check (\w+) record (\d+) :: (.*)", first)
              variants = sorted(set(re.findall(r"\[variant (\w+)\] VIOLATION", r.stdout)))
              main_hit = bool(re.search(r"^violation in run", r.stdout, re.M))
              res = {"applies": True, "command": f"./check C10 {tier}", "exit": r.returncode,
                     "violation_line_printed": "VIOLATION property=C10" in r.stdout,
                     "first_violation": ({"run": int(m.group(1)), "check": m.group(2), "detail": m.group(4)[:300]} if m else None),
                     "variants_reporting": (["main"] if main_hit else []) + variants,
                     "stage": stage, "wall_s": round(time.time() - t0, 1)}
              if r.returncode == 2:
                  res["stderr"] = r.stderr[-600:]
      finally:
          sh("git -C /repo checkout -- .")
          sh("git -C /repo clean -fdq src")  # patches that add files
    if not results_only:
        meta["verif_result"] = res
        json.dump(meta, open(os.path.join(d, "meta.json"), "w"), indent=1)
    breaks = meta.get("breaks_property", True)
    verdict = ("caught" if res.get("exit") == 1 else "MISSED" if res.get("exit") == 0 else "ERROR") if breaks else \
              ("quiet (correct)" if res.get("exit") == 0 else "FALSE ALARM" if res.get("exit") == 1 else "ERROR")
    if breaks and meta.get("needs_tier") == "thorough" and tier == "quick" and res.get("exit") in (0, None):
        tr = meta.get("thorough_result", {})
        verdict = ("not visible at quick by construction" if res.get("exit") == 0 else "not run at quick (needs the thorough tier by construction)") + "; thorough: " + ("caught (%s)" % tr.get("check") if tr.get("caught") else "NOT RECORDED")
    fv = res.get("first_violation") or {}
    kind = "breaks C10" if breaks else ("meant as breaking; C10 holds (see meta.json)" if meta.get("my_assessment") else "refactoring, C10 holds")
    rows.append((name, kind, verdict, fv.get("check", "-"), fv.get("run", "-"),
                 ",".join(res.get("variants_reporting", [])) or "-", meta.get("needs_to_manifest", "")[:140]))
    print(rows[-1][:6], flush=True)
assert not sh("git -C /repo status --porcelain --untracked-files=no").stdout.strip()
if not only:
    with open(os.path.join(SEEDED, "RESULTS.md"), "w") as f:
        f.write(f"# Seeded changes vs `./check C10 {tier}` (default seed)\n\nGenerated by tools/run_seeded.py; each patch applied to /repo (a private clone when run through tools/iso.sh), check run, /repo restored. A change expected to violate the property is first tried against the main build configuration alone; if that reports, the column 'build variants reporting' says only 'main' and the other configurations were not run (meta.json: verif_result.stage). Changes under which the property holds always get the full registered command (or, in a regression pass with --main-only, the main configuration alone: verif_result.stage says which). A row whose verif_result has no 'stage' field was last tried before that field existed: earlier in the last session (agent35-agent44, own21) or in previous sessions (agent18-agent34 except 20, 22, 27, 28, 33; own18-own20), against builds of the harness to which oracles and fault kinds have only been added since.\n\n")
        f.write("| id | kind | verdict | first check id | first failing run | build variants reporting | needs, in order to manifest |\n|---|---|---|---|---|---|---|\n")
        for r in rows:
            f.write("| " + " | ".join(str(x).replace("|", "/") for x in r) + " |\n")
print("done")
