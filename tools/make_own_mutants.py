#!/usr/bin/env python3
"""Builds the sensitivity patches of DESIGN.md §4.10 (own, hand-written seeded
defects and must-not-alarm refactorings) in a scratch worktree of /repo and
stores each as /verif/seeded/<id>/patch.diff. usage: make_own_mutants.py <worktree>"""
import os, subprocess, sys, json
WT = sys.argv[1]
OUT = "/verif/seeded"

def sh(cmd):
    return subprocess.run(cmd, shell=True, cwd=WT, check=True, capture_output=True, text=True).stdout

def edit(path, old, new, count=1):
    p = os.path.join(WT, path)
    s = open(p).read()
    assert s.count(old) >= 1, (path, old[:60])
    s = s.replace(old, new, count) if count else s.replace(old, new)
    open(p, "w").write(s)

DERIVE = "#[derive(Encode, Decode, scale_info::TypeInfo, MaxEncodedLen)]"
STRUCT_END = """                bits: $Inner,
                phantom: PhantomData<Frac>,
            }
        }
"""

def manual_codec(enc_body=None, dec_body=None, mel_body=None, extra_bounds="", keep_encode=False, keep_decode=False, keep_mel=True):
    """replace (part of) the derive by hand-written impls inside the fixed! macro"""
    derives = ["scale_info::TypeInfo"]
    if keep_encode: derives.insert(0, "Encode")
    if keep_decode: derives.insert(1 if keep_encode else 0, "Decode")
    if keep_mel: derives.append("MaxEncodedLen")
    edit("src/lib.rs", DERIVE, "#[derive(%s)]" % ", ".join(derives))
    impls = ""
    if not keep_encode:
        impls += """
        impl<Frac%s> Encode for $Fixed<Frac> {
%s
        }
        impl<Frac%s> codec::EncodeLike for $Fixed<Frac> {}
""" % (extra_bounds, enc_body, extra_bounds)
    if not keep_decode:
        impls += """
        impl<Frac%s> Decode for $Fixed<Frac> {
%s
        }
""" % (extra_bounds, dec_body)
    if not keep_mel:
        impls += """
        impl<Frac%s> MaxEncodedLen for $Fixed<Frac> {
%s
        }
""" % (extra_bounds, mel_body)
    edit("src/lib.rs", STRUCT_END, STRUCT_END + impls)

ENC_LE = """            #[inline]
            fn size_hint(&self) -> usize {
                core::mem::size_of::<$Inner>()
            }
            #[inline]
            fn using_encoded<R, F: FnOnce(&[u8]) -> R>(&self, f: F) -> R {
                f(&self.bits.to_le_bytes())
            }"""
DEC_LE = """            #[inline]
            fn decode<I: codec::Input>(input: &mut I) -> Result<Self, codec::Error> {
                let mut buf = [0u8; core::mem::size_of::<$Inner>()];
                input.read(&mut buf)?;
                Ok(Self::from_bits(<$Inner>::from_le_bytes(buf)))
            }"""

MUTANTS = {}
def mutant(name, breaks, needs):
    def deco(f):
        MUTANTS[name] = (f, breaks, needs)
        return f
    return deco

@mutant("own01-be-codec-pair", True, "any value whose LE and BE bytes differ, read by a different implementation (integer twin, to_le_bytes, hand-written reader); a plain encode/decode round trip passes")
def m01():
    manual_codec(ENC_LE.replace("to_le_bytes", "to_be_bytes"), DEC_LE.replace("from_le_bytes", "from_be_bytes"))

@mutant("own02-to-le-is-be-128", True, "only the 128-bit families, only to_le_bytes (inherent), only values that are not byte palindromes")
def m02():
    # inherent to_le_bytes of the 16-byte types returns big-endian bytes
    edit("src/macros_no_frac.rs", """                pub fn to_le_bytes(self) -> [u8; $nbytes] {
                    self.to_bits().to_le_bytes()""", """                pub fn to_le_bytes(self) -> [u8; $nbytes] {
                    if $nbytes == 16 {
                        return self.to_bits().to_be_bytes();
                    }
                    self.to_bits().to_le_bytes()""")

@mutant("own03-from-ne-via-be", True, "from_ne_bytes on a little-endian host, values that are not byte palindromes")
def m03():
    edit("src/macros_no_frac.rs", "$Fixed::from_bits(<$Inner>::from_ne_bytes(bytes))", "$Fixed::from_bits(<$Inner>::from_be_bytes(bytes))")

@mutant("own04-decode-zero-pads-short-input", True, "input shorter than width/8 whose Input reports its remaining length; full-length input decodes correctly")
def m04():
    manual_codec(dec_body="""            fn decode<I: codec::Input>(input: &mut I) -> Result<Self, codec::Error> {
                let mut buf = [0u8; core::mem::size_of::<$Inner>()];
                // tolerate values written by an older, narrower layout
                let n = match input.remaining_len()? {
                    Some(n) if n > 0 && n < buf.len() => n,
                    _ => buf.len(),
                };
                input.read(&mut buf[..n])?;
                Ok(Self::from_bits(<$Inner>::from_le_bytes(buf)))
            }""", keep_encode=True)

@mutant("own05a-decode-eats-following-byte", True, "another record follows in the same stream: decode consumes width/8+1 bytes when more input is available (single-value round trips pass)")
def m05a():
    manual_codec(dec_body="""            fn decode<I: codec::Input>(input: &mut I) -> Result<Self, codec::Error> {
                let mut buf = [0u8; core::mem::size_of::<$Inner>()];
                input.read(&mut buf)?;
                // skip an optional padding byte
                if let Ok(Some(n)) = input.remaining_len() {
                    if n > 0 {
                        let _ = input.read_byte();
                    }
                }
                Ok(Self::from_bits(<$Inner>::from_le_bytes(buf)))
            }""", keep_encode=True)

@mutant("own05b-encode-to-appends-byte", True, "only encode_to (and what is built on it: containers, encoded_size); encode()/using_encoded still give width/8 bytes and decode ignores the extra byte")
def m05b():
    manual_codec(ENC_LE + """
            fn encode_to<W: codec::Output + ?Sized>(&self, dest: &mut W) {
                dest.write(&self.bits.to_le_bytes());
                dest.push_byte(0);
            }""", DEC_LE)

@mutant("own06-encoding-depends-on-frac", True, "only layouts with more than 64 fractional bits: the low byte is XORed with a layout tag on both encode and decode, so round trips pass and other layouts / the integer twin read a different value")
def m06():
    manual_codec("""            #[inline]
            fn size_hint(&self) -> usize {
                core::mem::size_of::<$Inner>()
            }
            fn using_encoded<R, F: FnOnce(&[u8]) -> R>(&self, f: F) -> R {
                let mut b = self.bits.to_le_bytes();
                if Frac::U32 > 64 {
                    b[0] ^= 0x80;
                }
                f(&b)
            }""", """            fn decode<I: codec::Input>(input: &mut I) -> Result<Self, codec::Error> {
                let mut buf = [0u8; core::mem::size_of::<$Inner>()];
                input.read(&mut buf)?;
                if Frac::U32 > 64 {
                    buf[0] ^= 0x80;
                }
                Ok(Self::from_bits(<$Inner>::from_le_bytes(buf)))
            }""", mel_body="""            fn max_encoded_len() -> usize {
                core::mem::size_of::<$Inner>()
            }""", keep_mel=False, extra_bounds=": crate::types::extra::Unsigned")

@mutant("own07-max-encoded-len-plus-one", True, "max_encoded_len only (no value-level effect)")
def m07():
    manual_codec(mel_body="""            fn max_encoded_len() -> usize {
                core::mem::size_of::<$Inner>() + 1
            }""", keep_encode=True, keep_decode=True, keep_mel=False)

@mutant("own08-decode-panics-on-short-input", True, "input shorter than width/8 (decode unwraps the read)")
def m08():
    manual_codec(dec_body="""            fn decode<I: codec::Input>(input: &mut I) -> Result<Self, codec::Error> {
                let mut buf = [0u8; core::mem::size_of::<$Inner>()];
                input.read(&mut buf).expect("fixed-point value is always present");
                Ok(Self::from_bits(<$Inner>::from_le_bytes(buf)))
            }""", keep_encode=True)

@mutant("own09a-serde-field-renamed", True, "feature serde: the field is serialised as `raw` while deserialisation still expects `bits` (maps fail, sequences work)")
def m09a():
    edit("src/serdeize.rs", 'state.serialize_field("bits", &bits)?;', 'state.serialize_field("raw", &bits)?;')

@mutant("own09b-serde-wrapping-newtype", True, "feature serde: Wrapping<F> serialised as a newtype struct around F instead of transparently")
def m09b():
    edit("src/serdeize.rs", """                self.0.serialize(serializer)""", """                serializer.serialize_newtype_struct("Wrapping", &self.0)""")

@mutant("own10-trait-to-be-is-le", True, "only the Fixed-trait method to_be_bytes (generic code), inherent method is right; values that are not byte palindromes")
def m10():
    edit("src/traits.rs", "trait_delegate! { fn to_be_bytes(self) -> Self::Bytes }", "#[inline]\n            fn to_be_bytes(self) -> Self::Bytes {\n                Self::to_le_bytes(self)\n            }")

@mutant("own11-decode-into-skips-sign-byte", True, "only decode_into (arrays, Box) of the signed 16..128-bit families with the top byte 0xff: the derived in-place path is replaced by one that sign-extends from the second highest byte; plain decode is right")
def m11():
    manual_codec(dec_body="""            #[inline]
            fn decode<I: codec::Input>(input: &mut I) -> Result<Self, codec::Error> {
                let mut buf = [0u8; core::mem::size_of::<$Inner>()];
                input.read(&mut buf)?;
                Ok(Self::from_bits(<$Inner>::from_le_bytes(buf)))
            }
            fn decode_into<I: codec::Input>(
                input: &mut I,
                dst: &mut core::mem::MaybeUninit<Self>,
            ) -> Result<codec::DecodeFinished, codec::Error> {
                let mut buf = [0u8; core::mem::size_of::<$Inner>()];
                input.read(&mut buf)?;
                let n = buf.len();
                if n > 1 && (<$Inner>::MIN != 0) && buf[n - 1] == 0xff {
                    // canonicalise the sign extension
                    buf[n - 1] = if buf[n - 2] & 0x80 != 0 { 0xff } else { 0 };
                }
                dst.write(Self::from_bits(<$Inner>::from_le_bytes(buf)));
                // SAFETY: dst was just written
                unsafe { Ok(codec::DecodeFinished::assert_decoding_finished()) }
            }""", keep_encode=True)

@mutant("own12-decode-assume-init-before-error-check", True, "natively invisible: on short input the value is `assume_init`-ed from uninitialised memory before the read error is propagated (Err is still returned); only an interpreter that detects undefined behaviour sees it")
def m12():
    manual_codec(dec_body="""            fn decode<I: codec::Input>(input: &mut I) -> Result<Self, codec::Error> {
                let mut slot = core::mem::MaybeUninit::<$Inner>::uninit();
                // SAFETY: the slot is size_of::<$Inner>() bytes of plain memory
                let bytes = unsafe {
                    core::slice::from_raw_parts_mut(slot.as_mut_ptr() as *mut u8, core::mem::size_of::<$Inner>())
                };
                let res = input.read(bytes);
                // SAFETY: read() filled the slot
                let raw = unsafe { slot.assume_init() };
                res?;
                Ok(Self::from_bits(<$Inner>::from_le(raw)))
            }""", keep_encode=True)

@mutant("own13-static-scratch-buffer", True, "hidden shared state: using_encoded copies the bytes into one `static mut` scratch buffer shared by every type and thread ('avoids a stack copy'); single-threaded use is always right, two threads encoding at the same time see each other's bytes (and it is a data race)")
def m13():
    manual_codec("""            #[inline]
            fn size_hint(&self) -> usize {
                core::mem::size_of::<$Inner>()
            }
            fn using_encoded<R, F: FnOnce(&[u8]) -> R>(&self, f: F) -> R {
                static mut SCRATCH: [u8; 16] = [0; 16];
                let n = core::mem::size_of::<$Inner>();
                // SAFETY: plain bytes
                unsafe {
                    let p = core::ptr::addr_of_mut!(SCRATCH) as *mut u8;
                    core::ptr::copy_nonoverlapping(self.bits.to_le_bytes().as_ptr(), p, n);
                    f(core::slice::from_raw_parts(p, n))
                }
            }""", DEC_LE)

@mutant("own14-serde-wraps-out-of-range", True, "feature serde: the visitor collects `bits` as a 128-bit integer and narrows it with `as`, so `{\"bits\": 300}` is accepted for an 8-bit type as 44; in-range input and all output are unchanged")
def m14():
    edit("src/serdeize.rs", """                    fn visit_seq<V: SeqAccess<'de>>(self, mut seq: V) -> Result<$TBits, V::Error> {
                        let bits = seq
                            .next_element()?
                            .ok_or_else(|| de::Error::invalid_length(0, &self))?;
                        Ok(bits)
                    }""", """                    fn visit_seq<V: SeqAccess<'de>>(self, mut seq: V) -> Result<$TBits, V::Error> {
                        let bits: Wide = seq
                            .next_element()?
                            .ok_or_else(|| de::Error::invalid_length(0, &self))?;
                        Ok(bits.0 as $TBits)
                    }""")
    edit("src/serdeize.rs", """                                    bits = Some(map.next_value()?);""", """                                    let wide: Wide = map.next_value()?;
                                    bits = Some(wide.0 as $TBits);""")
    edit("src/serdeize.rs", """const FIELDS: &[&str] = &["bits"];""", """const FIELDS: &[&str] = &["bits"];

/// Any integer a format may hand us, kept as its two's-complement 128-bit pattern.
struct Wide(u128);

impl<'de> Deserialize<'de> for Wide {
    fn deserialize<D: Deserializer<'de>>(deserializer: D) -> Result<Wide, D::Error> {
        struct WideVisitor;
        impl<'de> Visitor<'de> for WideVisitor {
            type Value = Wide;
            fn expecting(&self, formatter: &mut Formatter) -> FmtResult {
                formatter.write_str("an integer")
            }
            fn visit_i64<E: de::Error>(self, v: i64) -> Result<Wide, E> {
                Ok(Wide(v as i128 as u128))
            }
            fn visit_u64<E: de::Error>(self, v: u64) -> Result<Wide, E> {
                Ok(Wide(v as u128))
            }
            fn visit_i128<E: de::Error>(self, v: i128) -> Result<Wide, E> {
                Ok(Wide(v as u128))
            }
            fn visit_u128<E: de::Error>(self, v: u128) -> Result<Wide, E> {
                Ok(Wide(v))
            }
        }
        deserializer.deserialize_any(WideVisitor)
    }
}""")

@mutant("own15-u32-narrow-value-window", True, "not meant to be realistic — it demonstrates the exhaustive 32-bit sweep: only the two 32-bit families, only the 256 bit patterns 0x12345600..=0x123456ff (2^-24 of the value space, no structure a value class could key on), encode side only")
def m15():
    manual_codec("""            #[inline]
            fn size_hint(&self) -> usize {
                core::mem::size_of::<$Inner>()
            }
            fn using_encoded<R, F: FnOnce(&[u8]) -> R>(&self, f: F) -> R {
                let mut b = self.bits.to_le_bytes();
                if b.len() == 4 && b.get(3) == Some(&0x12) && b.get(2) == Some(&0x34) && b.get(1) == Some(&0x56) {
                    if let Some(x) = b.get_mut(0) {
                        *x = 0;
                    }
                }
                f(&b)
            }""", DEC_LE)

@mutant("own16-encode-native-endian", True, "a big-endian host: the hand-written codec uses to_ne_bytes / from_ne_bytes ('native is fastest'); on every little-endian machine, including this one, it is bit-for-bit right")
def m16():
    manual_codec(ENC_LE.replace("to_le_bytes", "to_ne_bytes"), DEC_LE.replace("from_le_bytes", "from_ne_bytes"))

@mutant("own17-wrapping-codec-with-version-byte", True, "new API surface: Wrapping<F> gains Encode/Decode/EncodeLike, written with a leading 'format version' byte; Wrapping round trips pass, nothing that existed before changes, but the SCALE form of a Wrapping<F> is no longer the plain bits of the value")
def m17():
    edit("src/wrapping.rs", """impl<F: Fixed> Wrapping<F> {""", """impl<F: codec::Encode> codec::Encode for Wrapping<F> {
    fn size_hint(&self) -> usize {
        1 + self.0.size_hint()
    }
    fn encode_to<W: codec::Output + ?Sized>(&self, dest: &mut W) {
        dest.push_byte(0);
        self.0.encode_to(dest);
    }
}
impl<F: codec::Encode> codec::EncodeLike for Wrapping<F> {}
impl<F: codec::Decode> codec::Decode for Wrapping<F> {
    fn decode<I: codec::Input>(input: &mut I) -> Result<Self, codec::Error> {
        if input.read_byte()? != 0 {
            return Err("unknown Wrapping format version".into());
        }
        F::decode(input).map(Wrapping)
    }
}

impl<F: Fixed> Wrapping<F> {""")

@mutant("own18-using-encoded-one-16bit-pattern", True, "from the harness review: only using_encoded, only the 16-bit families, only bits == 0x1234 (byte-swapped); not realistic, it demonstrates that the 16-bit sweep's rotating second record reaches every writer with every pattern")
def m18():
    manual_codec("""            #[inline]
            fn size_hint(&self) -> usize {
                core::mem::size_of::<$Inner>()
            }
            fn encode_to<W: codec::Output + ?Sized>(&self, dest: &mut W) {
                dest.write(&self.bits.to_le_bytes());
            }
            fn using_encoded<R, F: FnOnce(&[u8]) -> R>(&self, f: F) -> R {
                let mut b = self.bits.to_le_bytes();
                if b.len() == 2 && b.first() == Some(&0x34) && b.get(1) == Some(&0x12) {
                    b.reverse();
                }
                f(&b)
            }""", DEC_LE)

@mutant("own19-max-encoded-len-asserts", True, "from the harness review: a hand-written MaxEncodedLen that panics (debug-style assertion) for the 128-bit families; clause b of C10, previously reported as a harness error because the call was not under catch_unwind")
def m19():
    manual_codec(mel_body="""            fn max_encoded_len() -> usize {
                assert!(core::mem::size_of::<$Inner>() < 16, "wide types are not storage-safe yet");
                core::mem::size_of::<$Inner>()
            }""", keep_encode=True, keep_decode=True, keep_mel=False)

@mutant("own20-encode-panics-on-one-32bit-pattern", True, "from the harness review: encode_to panics for bits == 0x12345678 of the 32-bit families only; demonstrates that the exhaustive 32-bit sweep pins the exact pattern when a chunk unwinds")
def m20():
    manual_codec("""            #[inline]
            fn size_hint(&self) -> usize {
                core::mem::size_of::<$Inner>()
            }
            fn using_encoded<R, F: FnOnce(&[u8]) -> R>(&self, f: F) -> R {
                let b = self.bits.to_le_bytes();
                if b.len() == 4 && b.first() == Some(&0x78) && b.get(1) == Some(&0x56) && b.get(2) == Some(&0x34) && b.get(3) == Some(&0x12) {
                    panic!("unreachable fixed-point state");
                }
                f(&b)
            }""", DEC_LE)

# ---- refactorings that must NOT raise an alarm
@mutant("ok01-fields-reordered", False, "n/a: phantom field first; encoding unchanged")
def n01():
    edit("src/lib.rs", """                bits: $Inner,
                phantom: PhantomData<Frac>,
            }
        }
""", """                phantom: PhantomData<Frac>,
                bits: $Inner,
            }
        }
""")

@mutant("ok02-encode-bytewise", False, "n/a: encode_to pushes the bytes one at a time; size_hint 0; same bytes")
def n02():
    manual_codec("""            fn encode_to<W: codec::Output + ?Sized>(&self, dest: &mut W) {
                for b in self.bits.to_le_bytes().iter() {
                    dest.push_byte(*b);
                }
            }""", DEC_LE)

@mutant("ok03-fixed-size-and-skip", False, "n/a: hand-written codec with encoded_fixed_size, skip, other size_hint and error text; same bytes")
def n03():
    manual_codec("""            #[inline]
            fn size_hint(&self) -> usize {
                32
            }
            #[inline]
            fn using_encoded<R, F: FnOnce(&[u8]) -> R>(&self, f: F) -> R {
                f(&self.bits.to_le_bytes())
            }""", """            fn decode<I: codec::Input>(input: &mut I) -> Result<Self, codec::Error> {
                let mut buf = [0u8; core::mem::size_of::<$Inner>()];
                input.read(&mut buf).map_err(|_| codec::Error::from("fixed-point value cut short"))?;
                Ok(Self::from_bits(<$Inner>::from_le_bytes(buf)))
            }
            fn skip<I: codec::Input>(input: &mut I) -> Result<(), codec::Error> {
                let mut buf = [0u8; core::mem::size_of::<$Inner>()];
                input.read(&mut buf)
            }
            fn encoded_fixed_size() -> Option<usize> {
                Some(core::mem::size_of::<$Inner>())
            }""")

@mutant("ok05-wrapping-codec-plain", False, "n/a: Wrapping<F> gains a transparent Encode/Decode/EncodeLike/MaxEncodedLen (exactly F's bytes); L1's optional-surface probe must exercise it and stay quiet")
def n05():
    edit("src/wrapping.rs", """impl<F: Fixed> Wrapping<F> {""", """impl<F: codec::Encode> codec::Encode for Wrapping<F> {
    fn size_hint(&self) -> usize {
        self.0.size_hint()
    }
    fn encode_to<W: codec::Output + ?Sized>(&self, dest: &mut W) {
        self.0.encode_to(dest);
    }
}
impl<F: codec::Encode> codec::EncodeLike for Wrapping<F> {}
impl<F: codec::Encode> codec::EncodeLike<F> for Wrapping<F> {}
impl<F: codec::MaxEncodedLen> codec::MaxEncodedLen for Wrapping<F> {
    fn max_encoded_len() -> usize {
        F::max_encoded_len()
    }
}
impl<F: codec::Decode> codec::Decode for Wrapping<F> {
    fn decode<I: codec::Input>(input: &mut I) -> Result<Self, codec::Error> {
        F::decode(input).map(Wrapping)
    }
}

impl<F: Fixed> Wrapping<F> {""")

os.makedirs(OUT, exist_ok=True)
only = sys.argv[2:] 
for name, (f, breaks, needs) in MUTANTS.items():
    if only and name not in only:
        continue
    sh("git checkout -- .")
    f()
    diff = sh("git diff")
    d = os.path.join(OUT, name)
    os.makedirs(d, exist_ok=True)
    open(os.path.join(d, "patch.diff"), "w").write(diff)
    meta = {"id": name, "property": "C10", "origin": "own (DESIGN.md §4.10)", "breaks_property": breaks, "needs_to_manifest": needs}
    mp = os.path.join(d, "meta.json")
    if os.path.exists(mp):
        old = json.load(open(mp)); old.update(meta); meta = old
    json.dump(meta, open(mp, "w"), indent=1)
    print(name, len(diff.splitlines()), "diff lines")
sh("git checkout -- .")
