#!/bin/sh
# usage: try_miri.sh <patch.diff> [host|s390x-unknown-linux-gnu|i686-unknown-linux-gnu] [lean-level]
# Applies a seeded patch to /repo, runs the PRNG-free probe batch under Miri for the given target, restores /repo.
# Meant to be run through tools/iso.sh (private /repo); refuses a dirty /repo.
set -u
P="$(readlink -f "$1")"; TGT="${2:-host}"; LEAN="${3:-1}"
OUT="/var/tmp/c10-trials/miri-$(basename "$(dirname "$P")")-$TGT"
mkdir -p "$OUT"
if [ -n "$(git -C /repo status --porcelain --untracked-files=no)" ]; then echo "refusing: /repo has local changes" >&2; exit 3; fi
git -C /repo apply "$P" || { echo "patch does not apply" >&2; exit 3; }
trap 'git -C /repo checkout -- . ; git -C /repo clean -fdq src ; echo "[/repo restored]"' EXIT INT TERM
T=""; L="miri"; [ "$TGT" != host ] && T="--target $TGT"
[ "$TGT" = s390x-unknown-linux-gnu ] && L=miri-be; [ "$TGT" = i686-unknown-linux-gnu ] && L=miri-32
cd /verif/sim && CARGO_NET_OFFLINE=true MIRIFLAGS=-Zmiri-disable-isolation cargo +nightly miri run --offline $T -p c10sim --target-dir target-miri -- ubprobe --replay-dir "$OUT" --variant $L --lean-level "$LEAN" >"$OUT/stdout.txt" 2>"$OUT/stderr.txt"
echo "exit=$?"; grep -E "VIOLATION|violation in|UBPROBE-OK|Undefined Behavior" "$OUT/stdout.txt" "$OUT/stderr.txt" | head -6
