#!/bin/sh
# usage: confirm_ref.sh <worktree> <dir-with patch.diff holds.rs> [features]
# Confirms independently: patch applies, the 66 baseline unit tests pass with it, holds.rs passes with and without it.
WT="$1"; D="$(readlink -f "$2")"; FEAT="${3:-}"
export CARGO_NET_OFFLINE=true
FF=""; [ -n "$FEAT" ] && FF="--features $FEAT"
cd "$WT" || exit 3
git checkout -q -- . ; git clean -fdq src ; rm -rf tests/holds.rs
git apply "$D/patch.diff" || { echo "PATCH DOES NOT APPLY"; exit 3; }
B=$(cargo test --workspace --lib --no-fail-fast --offline 2>&1 | grep -E "^test result|^error" | head -2 | tr '\n' ' ')
echo "baseline with patch: $B"
mkdir -p tests; cp "$D/holds.rs" tests/holds.rs
W=$(cargo test --offline $FF --test holds 2>&1 | grep -E "^test result|^error" | head -2 | tr '\n' ' ')
echo "holds with patch:    $W"
git checkout -q -- . ; git clean -fdq src
O=$(cargo test --offline $FF --test holds 2>&1 | grep -E "^test result|^error" | head -2 | tr '\n' ' ')
echo "holds without patch: $O"
rm -rf tests/holds.rs; rmdir tests 2>/dev/null
