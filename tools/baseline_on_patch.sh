#!/bin/sh
# usage: baseline_on_patch.sh <worktree> <patch.diff>...   — applies each patch in the scratch worktree,
# runs the 66 baseline unit tests and a serde+std build, prints one line per patch, restores the worktree.
WT="$1"; shift
export CARGO_NET_OFFLINE=true
for P in "$@"; do
  ( cd "$WT" && git checkout -q -- . && git apply "$P" ) || { echo "$(basename $(dirname $P)): DOES NOT APPLY"; continue; }
  T=$(cd "$WT" && cargo test --workspace --lib --no-fail-fast --offline 2>&1 | grep -E "^test result|error(\[|:)" | head -3 | tr '\n' ' ')
  S=$(cd "$WT" && cargo check --features serde,std --offline 2>&1 | grep -E "^error|Finished" | head -2 | tr '\n' ' ')
  echo "$(basename $(dirname $P)): tests: $T | serde+std: $S"
  ( cd "$WT" && git checkout -q -- . )
done
