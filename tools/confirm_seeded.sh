#!/bin/sh
# usage: confirm_seeded.sh <worktree> <dir-with patch.diff demo.rs meta.json> [features]
# Confirms independently: (1) patch applies and the 66 baseline unit tests pass with it,
# (2) the demo fails with the patch, (3) the demo passes without it. Restores the worktree.
WT="$1"; D="$(readlink -f "$2")"; FEAT="${3:-}"
export CARGO_NET_OFFLINE=true
FF=""; [ -n "$FEAT" ] && FF="--features $FEAT"
cd "$WT" || exit 3
git checkout -q -- . ; git clean -fdq src ; rm -rf tests/demo.rs
git apply "$D/patch.diff" || { echo "PATCH DOES NOT APPLY"; exit 3; }
B=$(cargo test --workspace --lib --no-fail-fast --offline 2>&1 | grep -E "^test result|^error" | head -2 | tr '\n' ' ')
echo "baseline with patch: $B"
mkdir -p tests; cp "$D/demo.rs" tests/demo.rs
W=$(cargo test --offline $FF --test demo 2>&1 | grep -E "^test result|^error" | head -2 | tr '\n' ' ')
echo "demo with patch:     $W"
git checkout -q -- . ; git clean -fdq src
O=$(cargo test --offline $FF --test demo 2>&1 | grep -E "^test result|^error" | head -2 | tr '\n' ' ')
echo "demo without patch:  $O"
rm -rf tests/demo.rs; rmdir tests 2>/dev/null
git status --short | head -3
