#!/bin/sh
# usage: try_patch.sh <patch.diff> [quick|thorough]
# Applies a seeded-defect patch to /repo, runs the C10 check with outputs redirected to a scratch
# directory, and ALWAYS restores /repo afterwards. For experiments only; not a registered command.
set -u
P="$(readlink -f "$1")"; TIER="${2:-quick}"
OUT="/var/tmp/c10-trials/$(basename "$(dirname "$P")")"
mkdir -p "$OUT"
if [ -n "$(git -C /repo status --porcelain --untracked-files=no)" ]; then echo "refusing: /repo has local changes" >&2; exit 3; fi
git -C /repo apply "$P" || { echo "patch does not apply" >&2; exit 3; }
trap 'git -C /repo checkout -- . ; git -C /repo clean -fdq src ; echo "[/repo restored]"' EXIT INT TERM
C10_EVIDENCE="$OUT/evidence.json" C10_REPLAY_DIR="$OUT/replays" /verif/check C10 "$TIER" >"$OUT/stdout.txt" 2>"$OUT/stderr.txt"
RC=$?
echo "exit=$RC"; grep -E "VIOLATION|violation in run|KNOWN-FINDING|harness error|held on" "$OUT/stdout.txt" "$OUT/stderr.txt" | head -8
exit $RC
