//! Seeded workload generation. Every choice of a run is drawn here, from the one
//! PRNG stream of that run, and frozen into the explicit trace.

use crate::exec::model_bytes;
use simcore::lay::Ops;
use simcore::prng::Rng;
use simcore::seams::{InputMode, IoPlan, Nest, RlMode};
use simcore::trace::{Fault, Reader, Record, SerdeOp, Shape, Trace, Writer, READERS, SHAPES, WRITERS};

pub const MAX_RECORDS: usize = 8;
pub const MAX_STREAM: usize = 160;
pub const VALUE_CLASSES: usize = 12;

pub struct World {
    pub table: Vec<Ops>,
    /// layout indices per width (8, 16, 32, 64, 128)
    pub by_width: [Vec<u16>; 5],
}
impl World {
    pub fn new(table: Vec<Ops>) -> World {
        let mut by_width: [Vec<u16>; 5] = Default::default();
        for (i, o) in table.iter().enumerate() {
            by_width[widx(o.w)].push(i as u16);
        }
        World { table, by_width }
    }
}
pub fn widx(w: u32) -> usize {
    match w {
        8 => 0,
        16 => 1,
        32 => 2,
        64 => 3,
        _ => 4,
    }
}

pub fn value_of_class(rng: &mut Rng, class: u32, w: u32) -> u128 {
    let mask = if w == 128 { u128::MAX } else { (1u128 << w) - 1 };
    let wb = (w / 8) as u128;
    let v = match class {
        0 => 0,
        1 => 1,
        2 => u128::MAX,
        3 => 1u128 << (w - 1),
        4 => (0..wb).fold(0u128, |a, i| a | ((i + 1) << (8 * i))), // every byte distinct
        5 => 1u128 << rng.below(w as u64),
        6 => (rng.range(1, 255) as u128) << (8 * rng.below(wb as u64)),
        7 => {
            // byte palindrome: trivial for endianness on purpose (kept as a minority)
            let x = rng.u128();
            let mut b = [0u8; 16];
            for i in 0..(wb as usize + 1) / 2 {
                b[i] = (x >> (8 * i)) as u8;
                b[wb as usize - 1 - i] = b[i];
            }
            u128::from_le_bytes(b)
        }
        9 => {
            // around a power of two / a narrower type's limits: 2^k - 1, 2^k, 2^k + 1 and their negations
            let ks = [7u32, 8, 15, 16, 31, 32, 63, 64, w / 2 - 1, w / 2, w - 2, w - 1];
            let k = ks[rng.below(ks.len() as u64) as usize] % w;
            let p = 1u128 << k;
            match rng.below(6) {
                0 => p.wrapping_sub(1),
                1 => p,
                2 => p.wrapping_add(1),
                3 => p.wrapping_neg(),
                4 => p.wrapping_neg().wrapping_sub(1),
                _ => p.wrapping_neg().wrapping_add(1),
            }
        }
        10 => {
            // every byte one of the usual suspects
            let pal = [0x00u8, 0x01, 0x7f, 0x80, 0xfe, 0xff];
            (0..wb).fold(0u128, |a, i| a | ((pal[rng.below(6) as usize] as u128) << (8 * i)))
        }
        11 => {
            // periodic: a random unit of 8/16/32/64 bits repeated (equal sub-words), sometimes with
            // one unit disturbed
            let per = [8u32, 16, 32, 64][rng.below(4) as usize].min(w);
            let unit = rng.u128() & if per == 128 { u128::MAX } else { (1u128 << per) - 1 };
            let mut x = 0u128;
            let mut at = 0;
            while at < w {
                x |= unit << at;
                at += per;
            }
            if rng.chance(1, 3) {
                x ^= 1u128 << rng.below(w as u64);
            }
            x
        }
        _ => rng.u128(),
    };
    v & mask
}

/// LE and BE byte strings of the value differ (so an endianness mix-up is visible).
pub fn endian_sensitive(v: u128, w: u32) -> bool {
    let wb = (w / 8) as usize;
    let le = v.to_le_bytes();
    (0..wb).any(|i| le[i] != le[wb - 1 - i])
}

pub fn generate(world: &World, seed: u64, run: u64) -> Trace {
    let mut rng = Rng::for_run(seed, run);
    let table = &world.table;
    // swarm configuration of this run
    let shape_mask = rng.subset(SHAPES.len() as u32) | if rng.chance(1, 2) { 1 } else { 0 };
    let writer_mask = rng.subset(WRITERS.len() as u32);
    let reader_mask = rng.subset(READERS.len() as u32);
    let class_mask = rng.subset(VALUE_CLASSES as u32) | if rng.chance(3, 4) { 1 << 8 } else { 0 };
    let cross_layout_reader = rng.chance(2, 3);
    let n_records = 1 + rng.below(MAX_RECORDS as u64) as usize;

    let rl = match rng.below(10) {
        0..=4 => RlMode::Exact,
        5 | 6 => RlMode::None,
        7 => RlMode::Over,
        _ => RlMode::Err,
    };
    let native_read_byte = rng.chance(1, 2);
    let io = if rng.chance(3, 10) {
        let n = 1 + rng.below(4) as usize;
        let chunks = (0..n).map(|_| if rng.chance(1, 5) { 255 } else { rng.range(1, 5) as u8 }).collect();
        let eintr_mask = if rng.chance(1, 2) { (rng.next() & rng.next()) as u32 } else { 0 };
        Some(IoPlan { chunks, eintr_mask })
    } else {
        None
    };

    let mut records: Vec<Record> = Vec::new();
    let mut len = 0usize;
    let related_values = rng.chance(1, 3);
    let mut seen: Vec<(u32, u128)> = Vec::new();
    for i in 0..n_records {
        let w_lay = if i == 0 {
            (run % table.len() as u64) as u16
        } else if related_values && rng.chance(1, 2) {
            // another layout of a width already used, so that related values can meet
            let peers = &world.by_width[widx(table[records[rng.below(records.len() as u64) as usize].w_lay as usize].w)];
            peers[rng.below(peers.len() as u64) as usize]
        } else {
            rng.below(table.len() as u64) as u16
        };
        let ops = &table[w_lay as usize];
        let r_lay = if cross_layout_reader && rng.chance(1, 2) {
            let peers = &world.by_width[widx(ops.w)];
            peers[rng.below(peers.len() as u64) as usize]
        } else {
            w_lay
        };
        let shape = SHAPES[rng.pick_bit(shape_mask) as usize];
        let nvals = match shape {
            Shape::Bare | Shape::Arr1 | Shape::Some | Shape::Tup3 | Shape::Boxed => 1,
            Shape::Arr3 => 3,
            Shape::Pair => 2,
            Shape::None => 0,
            Shape::Rec => 1 + rng.below(2) as usize,
            Shape::Sum => rng.below(3) as usize,
            // now and then a vector long enough for the two-byte length prefix (narrow layouts only,
            // so that the stream stays within its bound)
            Shape::Vec if ops.w <= 16 && i == 0 && rng.chance(1, 8) => 64 + rng.below(6) as usize,
            Shape::Append if ops.w == 8 && i == 0 && rng.chance(1, 8) => 62 + rng.below(5) as usize,
            Shape::Vec => rng.below(5) as usize,
            Shape::Append => rng.below(7) as usize,
        };
        let mut vals: Vec<u128> = (0..nvals)
            .map(|_| {
                let c = rng.pick_bit(class_mask);
                value_of_class(&mut rng, c, ops.w)
            })
            .collect();
        // now and then a value that is *related* to one met earlier in this history (same low half and
        // another high half, same high half, one byte or bit apart, byte-reversed, identical): what a
        // memo or cache with an imperfect key, or a "same as last time" shortcut, would confuse
        if related_values {
            for v in vals.iter_mut() {
                if let Some(p) = seen.iter().rev().find(|(w, _)| *w == ops.w).map(|(_, x)| *x) {
                    if rng.chance(1, 2) {
                        let w = ops.w;
                        let mask = ops.mask();
                        let half = (1u128 << (w / 2)) - 1;
                        *v = match rng.below(7) {
                            0 => (p & half) | (*v & !half),
                            1 => (p & !half) | (*v & half),
                            2 => p ^ (1u128 << rng.below(w as u64)),
                            3 => p ^ (0xffu128 << (8 * rng.below((w / 8) as u64))),
                            4 => {
                                let b = p.to_le_bytes();
                                let wb = (w / 8) as usize;
                                (0..wb).fold(0u128, |a, i| a | ((b[wb - 1 - i] as u128) << (8 * i)))
                            }
                            5 => !p,
                            _ => p,
                        } & mask;
                    }
                }
                seen.push((ops.w, *v));
            }
        }
        let mut splits = Vec::new();
        if shape == Shape::Append {
            let mut left = nvals;
            while left > 0 {
                // long appends go in big steps first so that the prefix grows from one to two bytes mid-way
                let k = if left > 8 { left - 3 - rng.below(4) as usize } else { 1 + rng.below(left.min(3) as u64) as usize };
                splits.push(k as u8);
                left -= k;
            }
        }
        // pick writer / reader among the enabled ones that fit the shape (fall back to the canonical pair)
        let mut writer = WRITERS[rng.pick_bit(writer_mask) as usize];
        if shape != Shape::Bare && !writer.container_ok() {
            writer = if rng.chance(1, 2) { Writer::EncodeTo } else { Writer::Encode };
        }
        let mut reader = READERS[rng.pick_bit(reader_mask) as usize];
        if shape != Shape::Bare && !reader.container_ok() {
            reader = Reader::Decode;
        }
        let rec = Record { w_lay, r_lay, shape, vals, splits, writer, reader };
        let l = model_bytes(&rec, ops.wb()).0.len();
        if !records.is_empty() && len + l > MAX_STREAM {
            break;
        }
        len += l;
        records.push(rec);
    }

    // faults drawn for this history (truncation offsets are enumerated by every tier, the rest by the thorough tier)
    let mut sampled = Vec::new();
    let starts: Vec<usize> = {
        let mut v = Vec::new();
        let mut at = 0;
        for r in &records {
            v.push(at);
            at += model_bytes(r, table[r.w_lay as usize].wb()).0.len();
        }
        v
    };
    let pick_offset = |rng: &mut Rng| -> usize {
        // biased towards the inside of a record and record boundaries
        let i = rng.below(records.len() as u64) as usize;
        let l = model_bytes(&records[i], table[records[i].w_lay as usize].wb()).0.len();
        match rng.below(4) {
            0 => starts[i],
            1 => starts[i] + l - 1,
            _ => starts[i] + rng.below(l as u64) as usize,
        }
    };
    for _ in 0..3 {
        sampled.push(Fault::IoErrorAt(pick_offset(&mut rng)));
    }
    for _ in 0..6 {
        sampled.push(Fault::BitFlip(pick_offset(&mut rng) * 8 + rng.below(8) as usize));
    }
    for _ in 0..3 {
        sampled.push(Fault::TransientAt(pick_offset(&mut rng)));
    }
    {
        let n = 1 + rng.below(5) as usize;
        let zero = rng.chance(1, 3);
        sampled.push(Fault::Trailing((0..n).map(|_| if zero { 0 } else { rng.next() as u8 }).collect()));
    }
    if let Some(lastr) = records.last() {
        let w = table[lastr.w_lay as usize].w;
        if lastr.shape == Shape::Bare && w < 128 {
            let wider = widx(w) + 1 + rng.below((4 - widx(w)) as u64) as usize;
            let peers = &world.by_width[wider];
            sampled.push(Fault::ReaderWider(peers[rng.below(peers.len() as u64) as usize]));
        }
    }
    sampled.sort();
    sampled.dedup();

    let mut serde = Vec::new();
    if rng.chance(1, 2) {
        let lay = if rng.chance(1, 2) { records[0].w_lay } else { rng.below(table.len() as u64) as u16 };
        let c = rng.pick_bit(class_mask);
        let bits = value_of_class(&mut rng, c, table[lay as usize].w);
        serde.push(SerdeOp { lay, bits, wrapping: rng.chance(1, 2) });
    }

    // a second task interleaved at one seam call of every record (drawn last, so that the rest of the
    // history is the same as before this dimension existed)
    let nest = if rng.chance(1, 4) {
        let lay = if rng.chance(1, 3) {
            let peers = &world.by_width[widx(table[records[0].w_lay as usize].w)];
            peers[rng.below(peers.len() as u64) as usize]
        } else {
            rng.below(table.len() as u64) as u16
        };
        let c = rng.pick_bit(class_mask);
        let bits = value_of_class(&mut rng, c, table[lay as usize].w);
        let at = if rng.chance(2, 3) { 0 } else { rng.below(4) as u8 };
        Some(Nest { lay, bits, at, after: rng.chance(1, 2) })
    } else {
        None
    };

    Trace { seed, run, input: InputMode { rl, native_read_byte, io, nest }, records, sampled_faults: sampled, serde }
}

#[derive(Clone, Copy, PartialEq, Eq, Debug)]
pub enum Tier {
    Quick,
    Thorough,
}

/// The fault plan of one history: what the tier enumerates plus what was drawn.
pub fn fault_plan(t: &Trace, medium_len: usize, tier: Tier) -> Vec<Fault> {
    let mut v = vec![Fault::None];
    for c in 0..medium_len {
        v.push(Fault::TruncateAt(c));
    }
    if tier == Tier::Thorough {
        for c in 0..medium_len {
            v.push(Fault::IoErrorAt(c));
        }
        for p in 0..medium_len * 8 {
            v.push(Fault::BitFlip(p));
        }
        for c in 1..medium_len {
            v.push(Fault::TransientAt(c));
        }
    }
    for f in &t.sampled_faults {
        if !v.contains(f) {
            let ok = match f {
                Fault::IoErrorAt(c) | Fault::TruncateAt(c) | Fault::TransientAt(c) => *c < medium_len,
                Fault::BitFlip(p) => *p < medium_len * 8,
                _ => true,
            };
            if ok {
                v.push(f.clone());
            }
        }
    }
    v
}

/// Deterministic (PRNG-free) sweep history: every bit pattern of an 8- or 16-bit layout goes
/// through the canonical encode_to/decode pair (exhaustive per layout), and through a second record
/// whose writer, reader and reader layout rotate with the value and the layout's rank, so that every
/// single writer and reader meets every bit pattern of the width in some layout. Index space: (layout among the 8/16-bit ones) x (value).
pub fn sweep_space(world: &World, sixteen: bool) -> Vec<(u16, u32)> {
    let mut v = Vec::new();
    for (i, o) in world.table.iter().enumerate() {
        if o.w == 8 || (sixteen && o.w == 16) {
            v.push((i as u16, 1u32 << o.w));
        }
    }
    v
}
pub fn sweep_trace(world: &World, lay: u16, value: u32, idx: u64) -> Trace {
    let o = &world.table[lay as usize];
    let peers = &world.by_width[widx(o.w)];
    // rank of this layout among the layouts of its width: the rotation below is offset by it, so that
    // across the 18 (8-bit) / 34 (16-bit) layouts every writer, every reader and every reader layout
    // meets every bit pattern of the width in some layout (not every *pair* does: 224 pairs, 18 layouts)
    let rank = peers.iter().position(|p| *p == lay).unwrap_or(0);
    let peer = peers[(rank + 1 + value as usize) % peers.len()];
    let writer = WRITERS[(value as usize + rank) % WRITERS.len()];
    let reader = READERS[(value as usize / WRITERS.len() + rank) % READERS.len()];
    let v = value as u128;
    let records = vec![
        Record { w_lay: lay, r_lay: lay, shape: Shape::Bare, vals: vec![v], splits: vec![], writer: Writer::EncodeTo, reader: Reader::Decode },
        Record { w_lay: lay, r_lay: peer, shape: Shape::Bare, vals: vec![v], splits: vec![], writer, reader },
    ];
    Trace { seed: 0, run: idx, input: InputMode::plain(), records, sampled_faults: vec![], serde: vec![] }
}

/// Deterministic histories for the interpreter (Miri) probe: every family once (frac = width/2),
/// every path that runs `unsafe` code in parity-scale-codec or in derive-generated code
/// (`decode_into` via arrays and `Box`, in-place struct decoding, `Vec` growth), written and
/// then read back fault-free, under every truncation and under a few bit flips.
pub fn ub_probe_traces(world: &World) -> Vec<Trace> {
    let mut out = Vec::new();
    for fam in 0..10u8 {
        let lay = match world.table.iter().position(|o| o.fam == fam && o.frac == o.w / 2) {
            Some(i) => i as u16,
            None => continue,
        };
        let o = &world.table[lay as usize];
        let peer = world.by_width[widx(o.w)].iter().copied().find(|p| world.table[*p as usize].signed != o.signed && world.table[*p as usize].frac == 0).unwrap_or(lay);
        let wb = (o.w / 8) as u128;
        let distinct = (0..wb).fold(0u128, |a, i| a | ((i + 1) << (8 * i)));
        let ones = o.mask();
        let msb = 1u128 << (o.w - 1);
        let rec = |shape: Shape, vals: Vec<u128>, writer: Writer, reader: Reader, r_lay: u16| Record { w_lay: lay, r_lay, shape, vals, splits: vec![], writer, reader };
        let h1 = vec![
            rec(Shape::Bare, vec![distinct], Writer::EncodeTo, Reader::ViaArray1, lay),
            rec(Shape::Bare, vec![ones], Writer::Encode, Reader::ViaBox, peer),
            rec(Shape::Arr3, vec![distinct, msb, 1], Writer::EncodeTo, Reader::Decode, lay),
            rec(Shape::Bare, vec![msb | 1], Writer::UsingEncoded, Reader::Decode, lay),
        ];
        let h2 = vec![
            rec(Shape::Rec, vec![distinct, ones], Writer::EncodeTo, Reader::Decode, lay),
            rec(Shape::Sum, vec![msb, distinct], Writer::Encode, Reader::Decode, peer),
            rec(Shape::Vec, vec![distinct, ones], Writer::EncodeTo, Reader::Decode, lay),
            rec(Shape::Boxed, vec![distinct], Writer::EncodeTo, Reader::Skip, lay),
            Record { w_lay: lay, r_lay: lay, shape: Shape::Append, vals: vec![1, distinct, ones], splits: vec![2, 1], writer: Writer::EncodeTo, reader: Reader::Decode },
        ];
        for (k, records) in [h1, h2].into_iter().enumerate() {
            for io in [false, true] {
                if io && k == 1 {
                    continue; // the IoReader path is exercised on the first history only
                }
                let input = if io {
                    InputMode { rl: RlMode::None, native_read_byte: false, io: Some(IoPlan { chunks: vec![3, 1, 5], eintr_mask: 0b1001_0010 }), nest: None }
                } else {
                    InputMode::plain()
                };
                out.push(Trace { seed: 0, run: (fam as u64) * 4 + (k as u64) * 2 + io as u64, input, records: records.clone(), sampled_faults: vec![], serde: vec![] });
            }
            if k == 0 {
                // the first history once more with a second task (a value of another family) run inside
                // the first seam call of every record, after the call was served: re-entrancy into the
                // codec while a decode / encode of this family is suspended
                let ofam = (fam + 3) % 10;
                if let Some(olay) = world.table.iter().position(|o| o.fam == ofam && o.frac == o.w / 2) {
                    let ow = world.table[olay].w as u128 / 8;
                    let obits = (0..ow).fold(0u128, |a, i| a | ((0xf0 - i) << (8 * i)));
                    let input = InputMode { nest: Some(Nest { lay: olay as u16, bits: obits, at: 0, after: true }), ..InputMode::plain() };
                    out.push(Trace { seed: 0, run: (fam as u64) * 4 + 3, input, records: records.clone(), sampled_faults: vec![], serde: vec![] });
                }
            }
        }
    }
    out
}

// ------------------------------------------------------------------ structured sweep of the wide layouts

/// The 64- and 128-bit value spaces cannot be swept; these PRNG-free sub-spaces are, completely, for every
/// wide layout (lean loop): (A) every pair of byte positions x all 65 536 values of those two bytes x three
/// backgrounds for the other bytes (00, ff, all distinct), (B) every combination of four sub-words (32-bit
/// words for 128-bit layouts, 16-bit for 64-bit ones) drawn from a palette of boundary and pattern words.
/// They are the classes the seeded changes of DESIGN.md §4.10 keyed on: a value window of a narrower type,
/// equal or sign-extending neighbouring limbs, a particular byte moved or masked.
pub const PAL32: [u32; 48] = [
    0, 1, 2, 3, 0x7f, 0x80, 0xfe, 0xff, 0x100, 0x7fff, 0x8000, 0xffff, 0x1_0000, 0x0100_0000, 0x7fff_ffff, 0x8000_0000, 0x8000_0001, 0xc000_0000,
    0xffff_fffe, 0xffff_ffff, 0x0102_0304, 0x0403_0201, 0xdead_beef, 0x1234_5678, 0x9abc_def0, 0xa5a5_a5a5, 0x5a5a_5a5a, 0x00ff_00ff, 0xff00_ff00,
    0x0000_ffff, 0xffff_0000, 0x0080_0000, 0xff00_0000, 0xfeff_ffff, 0xffff_feff, 0x7f7f_7f7f, 0x8080_8080, 0x0101_0101, 0xfefe_fefe, 0x0f0f_0f0f,
    0xf0f0_f0f0, 0x3333_3333, 0xcccc_cccc, 0x5555_5555, 0xaaaa_aaaa, 0x00ff_ff00, 0xff00_00ff, 0x7fff_ff80,
];
pub const PAL16: [u16; 32] = [
    0, 1, 2, 0x7f, 0x80, 0xfe, 0xff, 0x100, 0x101, 0x7ffe, 0x7fff, 0x8000, 0x8001, 0xc000, 0xfeff, 0xfffe, 0xffff, 0x0102, 0x0201, 0xbeef, 0xdead,
    0x1234, 0xa5a5, 0x5a5a, 0x00ff, 0xff00, 0x0f0f, 0xf0f0, 0x5555, 0xaaaa, 0x7f80, 0x807f,
];
pub fn structured_total(w: u32) -> u64 {
    let nb = (w / 8) as u64;
    let a = nb * (nb - 1) / 2 * 65536 * 3;
    let b = if w == 128 { 48u64.pow(4) } else { 32u64.pow(4) };
    a + b
}
fn pair_table(nb: u64) -> &'static [(u8, u8)] {
    use std::sync::OnceLock;
    static T8: OnceLock<Vec<(u8, u8)>> = OnceLock::new();
    static T16: OnceLock<Vec<(u8, u8)>> = OnceLock::new();
    let mk = |nb: u64| {
        let mut v = Vec::new();
        for x in 0..nb {
            for y in x + 1..nb {
                v.push((x as u8, y as u8));
            }
        }
        v
    };
    if nb == 8 {
        T8.get_or_init(|| mk(8))
    } else {
        T16.get_or_init(|| mk(16))
    }
}
#[inline]
pub fn structured_pattern(w: u32, idx: u64) -> u128 {
    let nb = (w / 8) as u64;
    let a = nb * (nb - 1) / 2 * 65536 * 3;
    let mask = if w == 128 { u128::MAX } else { (1u128 << w) - 1 };
    if idx < a {
        let bg = idx % 3;
        let rest = idx / 3;
        let val = (rest % 65536) as u128;
        let (i, j) = pair_table(nb)[(rest / 65536) as usize];
        let back: u128 = match bg {
            0 => 0,
            1 => u128::MAX,
            _ => 0x1f1e_1d1c_1b1a_1918_1716_1514_1312_1110, // byte k = 0x10 + k
        };
        let hole = !((0xffu128 << (8 * i as u32)) | (0xffu128 << (8 * j as u32)));
        ((back & hole) | ((val & 0xff) << (8 * i as u32)) | ((val >> 8) << (8 * j as u32))) & mask
    } else {
        let mut r = idx - a;
        let mut v: u128 = 0;
        if w == 128 {
            for k in 0..4 {
                v |= (PAL32[(r % 48) as usize] as u128) << (32 * k);
                r /= 48;
            }
        } else {
            for k in 0..4 {
                v |= (PAL16[(r % 32) as usize] as u128) << (16 * k);
                r /= 32;
            }
        }
        v
    }
}
