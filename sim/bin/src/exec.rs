//! Executes a trace against the real code and judges it with the reference
//! model. Nothing in here draws from the PRNG or reads a clock.

use simcore::lay::{tup_head, tup_tail, Ops};
use simcore::seams::{ev, InputMode, Log, Nest, RlMode, SimInput, SimOutput};
use simcore::serde_tok::{SerdeFault, Tok, PRESENTATIONS, SERDE_FAULTS};
use simcore::trace::{Fault, Reader, Record, SerdeOp, Shape, Trace, Writer};
use std::panic::{catch_unwind, AssertUnwindSafe};
use std::sync::atomic::{AtomicBool, AtomicU8, Ordering};

/// Skip the serde ops of every history (used to compare event digests with a build of
/// substrate-fixed that has no serde feature).
pub static CODEC_ONLY: AtomicBool = AtomicBool::new(false);
/// Lean levels for the interpreter (Miri) probe. 0: everything. 2: only the codec calls and their oracles
/// (E1, E3, D1-D7) — the byte-view algebra, metadata and size checks are skipped because an interpreter
/// executes them thousands of times slower and they contain no `unsafe` path. 1 (cross-target runs): as
/// 2 plus the size (E2) and byte-view (B1) oracles, which are the ones that can depend on the target's
/// endianness and pointer width; metadata, EncodeLike and serde stay off.
pub static LEAN: AtomicU8 = AtomicU8::new(0);
/// Alarm-path self-test: the reference model is deliberately wrong (big-endian payload), so that the
/// unchanged tree "violates" E1 (level 1: the write phase) or D1 (level 2: the model expects every bare
/// record's value with its lowest bit flipped, so the read phase fails) and the whole detect / minimise /
/// persist / replay path can be exercised without touching /repo. Only ever set in a child process whose
/// output is captured.
pub static CANARY: AtomicU8 = AtomicU8::new(0);

#[derive(Clone, Debug)]
pub struct Violation {
    /// check id == violation class (E1, E2, E3, D1 .. D6, B1, S1 .. S4, M1, A1, P0)
    pub check: &'static str,
    /// index of the record (or serde op) concerned
    pub rec: usize,
    pub fault: Fault,
    pub detail: String,
}

pub const CHECK_IDS: [&str; 23] = ["E0", "E1", "E2", "E3", "A1", "D1", "D2", "D3", "D4", "D5", "D6", "B1", "M1", "S1", "S2", "S3", "S4", "U1", "D7", "S5", "L1", "D8", "R1"];

fn check_no(id: &str) -> u64 {
    CHECK_IDS.iter().position(|c| *c == id).unwrap_or(99) as u64
}

// ------------------------------------------------------------------ reference model

#[inline]
fn le_bytes(bits: u128, wb: usize) -> impl Iterator<Item = u8> {
    (0..wb).map(move |i| (bits >> (8 * i)) as u8)
}

/// Values a reader of this record is expected to report (Tup3 carries its foreign fields).
pub fn expected_values(r: &Record) -> Vec<u128> {
    if CANARY.load(Ordering::Relaxed) == 2 && r.shape == Shape::Bare {
        return vec![r.vals[0] ^ 1];
    }
    match r.shape {
        Shape::Tup3 => vec![r.vals[0], tup_head(r.vals[0]) as u128, tup_tail(r.vals[0]) as u128],
        Shape::Rec => {
            let mut v = r.vals.clone();
            v.push(tup_head(r.vals[0]) as u128);
            v.push(tup_tail(r.vals[0]) as u128);
            v
        }
        _ => r.vals.clone(),
    }
}

/// Model bytes of a record and the spans (offset within record, length, index into
/// `expected_values`) that hold plain little-endian payload.
pub fn model_bytes(r: &Record, wb: usize) -> (Vec<u8>, Vec<(usize, usize, usize)>) {
    let mut b = Vec::new();
    let mut spans = Vec::new();
    let canary = CANARY.load(Ordering::Relaxed) == 1;
    let mut payload = |b: &mut Vec<u8>, vals: &[u128]| {
        for (j, v) in vals.iter().enumerate() {
            spans.push((b.len(), wb, j));
            if canary {
                let mut x: Vec<u8> = le_bytes(*v, wb).collect();
                x.reverse();
                b.extend(x);
            } else {
                b.extend(le_bytes(*v, wb));
            }
        }
    };
    match r.shape {
        Shape::Bare | Shape::Arr1 | Shape::Arr3 | Shape::Pair | Shape::Boxed => payload(&mut b, &r.vals),
        Shape::Some => {
            b.push(1);
            payload(&mut b, &r.vals)
        }
        Shape::None => b.push(0),
        Shape::Vec | Shape::Append => {
            // SCALE compact length: single-byte mode below 64 items, two-byte mode below 2^14
            let n = r.vals.len();
            if n < 64 {
                b.push((n as u8) << 2);
            } else {
                b.extend_from_slice(&(((n as u16) << 2) | 1).to_le_bytes());
            }
            payload(&mut b, &r.vals)
        }
        Shape::Rec => {
            let v = r.vals[0];
            let n = r.vals.len();
            spans.push((0, 1, n));
            b.push(tup_head(v));
            spans.push((1, wb, 0));
            b.extend(le_bytes(v, wb));
            if n == 2 {
                b.push(1);
                spans.push((b.len(), wb, 1));
                b.extend(le_bytes(r.vals[1], wb));
            } else {
                b.push(0);
            }
            spans.push((b.len(), 2, n + 1));
            b.extend_from_slice(&tup_tail(v).to_le_bytes());
        }
        Shape::Sum => match r.vals.len() {
            0 => b.push(0),
            1 => {
                b.push(3);
                payload(&mut b, &r.vals)
            }
            _ => {
                b.push(7);
                payload(&mut b, &r.vals)
            }
        },
        Shape::Tup3 => {
            let v = r.vals[0];
            spans.push((0, 1, 1));
            b.push(tup_head(v));
            spans.push((1, wb, 0));
            b.extend(le_bytes(v, wb));
            spans.push((1 + wb, 2, 2));
            b.extend_from_slice(&tup_tail(v).to_le_bytes());
        }
    }
    (b, spans)
}

// ------------------------------------------------------------------ the interleaved second task (R1)

/// The second task of a history with `input.nest`: a complete encode (three entry points) and decode
/// (plain, in-place through an array, and one cut short) of another value, run while the first
/// operation is suspended inside a seam call. Judged against the model on the spot; `Some(description)`
/// if the second task itself went wrong. What it may have done to the *first* task is judged by the
/// ordinary oracles when that one resumes.
pub fn nested_task(table: &[Ops], n: &Nest) -> Option<String> {
    let ops = table.get(n.lay as usize)?;
    let wb = ops.wb();
    let bits = n.bits & ops.mask();
    let model: Vec<u8> = le_bytes(bits, wb).collect();
    let r = catch_unwind(AssertUnwindSafe(|| -> Option<String> {
        for writer in [Writer::EncodeTo, Writer::UsingEncoded, Writer::Encode] {
            let mut log = Log::new(false);
            let mut out = SimOutput::new(Vec::new(), &mut log);
            if let Err(m) = (ops.enc)(&[bits], &[], Shape::Bare, writer, &mut out) {
                return Some(format!("encoding {} {:#x} via {:?} failed: {}", ops.name, bits, writer, m));
            }
            if out.buf != model {
                return Some(format!("{} {:#x} via {:?} wrote {:02x?}, model says {:02x?}", ops.name, bits, writer, out.buf, model));
            }
        }
        for reader in [Reader::Decode, Reader::ViaArray1] {
            let mut inp = SimInput::new(&model, 0, None, InputMode::plain(), false);
            match (ops.dec)(Shape::Bare, reader, &mut inp) {
                Ok(Some(v)) if v == vec![bits] && inp.pos == wb => {}
                other => return Some(format!("{} via {:?} decoded {:02x?} to {:x?} (position {}), model says {:#x}", ops.name, reader, model, other.map_err(|e| e.to_string()), inp.pos, bits)),
            }
        }
        // a decode that is cut short, in between: must fail, and must not poison what follows
        let mut inp = SimInput::new(&model[..wb - 1], 0, None, InputMode::plain(), false);
        if let Ok(v) = (ops.dec)(Shape::Bare, Reader::Decode, &mut inp) {
            return Some(format!("{} decoded {} of {} bytes to {:x?}", ops.name, wb - 1, wb, v));
        }
        None
    }));
    match r {
        Ok(x) => x,
        Err(p) => Some(format!("the second task ({} {:#x}) unwound: {}", ops.name, bits, panic_msg(p))),
    }
}

/// The second task of the history executed on its own, outside any seam call: `Some` if it fails there
/// too (then the failure is an ordinary encode / decode violation, not one of interference).
fn standalone_failure(table: &[Ops], t: &Trace) -> Option<(&'static str, String)> {
    let n = t.input.nest.as_ref()?;
    let m = nested_task(table, n)?;
    let id = if m.contains(" wrote ") || m.contains("encoding ") {
        "E1"
    } else if m.contains(" bytes to ") {
        "D3"
    } else {
        "D1"
    };
    Some((id, m))
}

// ------------------------------------------------------------------ write phase

pub struct Written {
    pub medium: Vec<u8>,
    /// [start, end) of each record in the medium
    pub spans: Vec<(usize, usize)>,
    pub digest: u64,
    pub steps: u64,
    pub events: Option<Vec<(u8, u64, u64)>>,
    pub ok: [u32; 24],
    /// second tasks run inside an Output call
    pub nest_fired: u32,
}

fn panic_msg(p: Box<dyn std::any::Any + Send>) -> String {
    if let Some(s) = p.downcast_ref::<&str>() {
        s.to_string()
    } else if let Some(s) = p.downcast_ref::<String>() {
        s.clone()
    } else {
        "non-string panic payload".into()
    }
}

fn viol(check: &'static str, rec: usize, fault: &Fault, detail: String) -> Violation {
    Violation { check, rec, fault: fault.clone(), detail }
}

pub fn validate(table: &[Ops], t: &Trace) -> Result<(), String> {
    for (i, r) in t.records.iter().enumerate() {
        let (w, rd) = (table.get(r.w_lay as usize).ok_or("w_lay out of range")?, table.get(r.r_lay as usize).ok_or("r_lay out of range")?);
        if w.w != rd.w {
            return Err(format!("record {}: writer and reader layouts differ in width", i));
        }
        let n = r.vals.len();
        let ok = match r.shape {
            Shape::Bare | Shape::Arr1 | Shape::Some | Shape::Tup3 | Shape::Boxed => n == 1,
            Shape::Arr3 => n == 3,
            Shape::Pair => n == 2,
            Shape::None => n == 0,
            Shape::Rec => n == 1 || n == 2,
            Shape::Sum => n <= 2,
            Shape::Vec => n < 16384,
            Shape::Append => n < 16384 && r.splits.iter().map(|x| *x as usize).sum::<usize>() == n,
        };
        if !ok {
            return Err(format!("record {}: {} values do not fit shape {:?}", i, n, r.shape));
        }
        if r.vals.iter().any(|v| *v & !w.mask() != 0) {
            return Err(format!("record {}: value wider than the layout", i));
        }
        if r.shape != Shape::Bare && !(r.writer.container_ok()) {
            return Err(format!("record {}: writer {:?} needs a bare record", i, r.writer));
        }
        if r.shape != Shape::Bare && !(r.reader.container_ok()) {
            return Err(format!("record {}: reader {:?} needs a bare record", i, r.reader));
        }
    }
    for o in &t.serde {
        let l = table.get(o.lay as usize).ok_or("serde lay out of range")?;
        if o.bits & !l.mask() != 0 {
            return Err("serde op: value wider than the layout".into());
        }
    }
    Ok(())
}

/// Run every writer of the history against the simulated sink; judge E0-E3, A1, B1, M1 and the serde ops.
pub fn write_phase(table: &[Ops], t: &Trace, record: bool) -> Result<Written, Violation> {
    let f0 = Fault::None;
    let mut log = Log::new(record);
    let mut medium: Vec<u8> = Vec::new();
    let mut spans = Vec::new();
    let mut nest_total = 0u32;
    for (i, r) in t.records.iter().enumerate() {
        let ops = &table[r.w_lay as usize];
        let wb = ops.wb();
        let start = medium.len();
        let hook = || t.input.nest.as_ref().and_then(|n| nested_task(table, n));
        let mut out = SimOutput::new(std::mem::take(&mut medium), &mut log);
        if let Some(n) = t.input.nest.as_ref() {
            out.nest = Some((n.at, n.after, &hook));
        }
        let res = catch_unwind(AssertUnwindSafe(|| (ops.enc)(&r.vals, &r.splits, r.shape, r.writer, &mut out)));
        medium = std::mem::take(&mut out.buf);
        let nest_fail = out.nest_fail.take();
        let nest_fired = out.nest_fired;
        drop(out);
        if let Some(m) = nest_fail {
            // does the second task fail on its own as well? then the interleaving has nothing to do with it
            if let Some((id, m2)) = standalone_failure(table, t) {
                log.ev(ev::CHECK_FAIL, check_no(id), i as u64);
                return Err(viol(id, i, &f0, format!("(met as the second task of this history, but independent of the interleaving) {}", m2)));
            }
            log.ev(ev::CHECK_FAIL, check_no("R1"), i as u64);
            return Err(viol("R1", i, &f0, format!("while {} {:?} was being written via {:?} (suspended in an Output call), a second task ran and went wrong: {}", ops.name, r.shape, r.writer, m)));
        }
        if nest_fired > 0 {
            nest_total += nest_fired;
            log.ev(ev::CHECK_OK, check_no("R1"), i as u64);
        }
        match res {
            Err(p) => {
                log.ev(ev::PANIC, i as u64, 0);
                return Err(viol("E0", i, &f0, format!("writer {:?} unwound: {}", r.writer, panic_msg(p))));
            }
            Ok(Err(m)) => {
                let id = if m.contains("encoded_size") { "E2" } else if m.contains("DecodeLength") || m.contains("append") { "A1" } else { "E1" };
                return Err(viol(id, i, &f0, m));
            }
            Ok(Ok(())) => {}
        }
        let end = medium.len();
        log.ev(ev::REC_WRITTEN, i as u64, ((start as u64) << 32) | end as u64);
        let got = &medium[start..end];
        // E1: exactly the model bytes
        let (model, _) = model_bytes(r, wb);
        if got != &model[..] {
            log.ev(ev::CHECK_FAIL, check_no("E1"), i as u64);
            return Err(viol("E1", i, &f0, format!("{} {:?} via {:?} wrote {:02x?}, model says {:02x?}", ops.name, r.shape, r.writer, got, model)));
        }
        // E3: identical to the underlying integer's encoding of the same shape
        let mut tlog = Log::new(false);
        let mut tout = SimOutput::new(Vec::new(), &mut tlog);
        let tw = if r.writer.container_ok() { r.writer } else { Writer::EncodeTo };
        let tres = catch_unwind(AssertUnwindSafe(|| (ops.enc_twin)(&r.vals, &r.splits, r.shape, tw, &mut tout)));
        let tbytes = std::mem::take(&mut tout.buf);
        drop(tout);
        match tres {
            Ok(Ok(())) => {
                if tbytes != got {
                    log.ev(ev::CHECK_FAIL, check_no("E3"), i as u64);
                    return Err(viol("E3", i, &f0, format!("{} {:?} wrote {:02x?}, the integer twin wrote {:02x?}", ops.name, r.shape, got, tbytes)));
                }
            }
            _ => return Err(viol("E3", i, &f0, "integer twin failed to encode (harness reference broke)".into())),
        }
        let lean = LEAN.load(Ordering::Relaxed);
        if lean >= 2 {
            log.ev(ev::CHECK_OK, check_no("E1"), i as u64);
            log.ev(ev::CHECK_OK, check_no("E3"), i as u64);
            spans.push((start, end));
            continue;
        }
        // E2: lengths
        if let Some(v0) = r.vals.first() {
            let sz = catch_unwind(|| (ops.sizes)(*v0));
            match sz {
                Ok((_hint, esz, elen)) => {
                    if esz != wb || elen != wb {
                        log.ev(ev::CHECK_FAIL, check_no("E2"), i as u64);
                        return Err(viol("E2", i, &f0, format!("{}: encoded_size() = {}, encode().len() = {}, width/8 = {}", ops.name, esz, elen, wb)));
                    }
                }
                Err(p) => return Err(viol("E0", i, &f0, format!("encoded_size/encode unwound: {}", panic_msg(p)))),
            }
        }
        let mels = catch_unwind(|| ((ops.mel)(Shape::Bare), (ops.mel)(r.shape), (ops.mel_twin)(r.shape)));
        let (mel, m1, m2) = match mels {
            Ok(x) => x,
            Err(p) => return Err(viol("E2", i, &f0, format!("{}: max_encoded_len() unwound: {}", ops.name, panic_msg(p)))),
        };
        if mel != Some(wb) {
            log.ev(ev::CHECK_FAIL, check_no("E2"), i as u64);
            return Err(viol("E2", i, &f0, format!("{}: max_encoded_len() = {:?}, width/8 = {}", ops.name, mel, wb)));
        }
        if m1 != m2 {
            log.ev(ev::CHECK_FAIL, check_no("E2"), i as u64);
            return Err(viol("E2", i, &f0, format!("{} {:?}: max_encoded_len() = {:?}, integer twin's = {:?}", ops.name, r.shape, m1, m2)));
        }
        if let Some(m) = m1 {
            if end - start > m {
                return Err(viol("E2", i, &f0, format!("{} {:?}: wrote {} bytes > max_encoded_len() {}", ops.name, r.shape, end - start, m)));
            }
        }
        log.ev(ev::CHECK_OK, check_no("E1"), i as u64);
        log.ev(ev::CHECK_OK, check_no("E3"), i as u64);
        log.ev(ev::CHECK_OK, check_no("E2"), i as u64);
        if r.shape == Shape::Append {
            log.ev(ev::CHECK_OK, check_no("A1"), r.splits.len() as u64);
        }
        // B1: byte views / bits algebra on the record's own values and on the bytes just written
        for (j, v) in r.vals.iter().enumerate() {
            let raw: Vec<u8> = le_bytes(v.rotate_left(37) ^ 0x6996_c33c_a55a_0ff0_1234_5678_9abc_def1u128.wrapping_mul(j as u128 + 1), 16).collect();
            let ops_r = &table[r.r_lay as usize];
            for o in [ops, ops_r] {
                match catch_unwind(|| (o.b1)(*v, &raw)) {
                    Ok(Ok(())) => {}
                    Ok(Err(m)) => {
                        log.ev(ev::CHECK_FAIL, check_no("B1"), i as u64);
                        return Err(viol("B1", i, &f0, format!("{}: {}", o.name, m)));
                    }
                    Err(p) => return Err(viol("B1", i, &f0, format!("{}: byte view unwound: {}", o.name, panic_msg(p)))),
                }
            }
        }
        if !r.vals.is_empty() {
            log.ev(ev::CHECK_OK, check_no("B1"), i as u64);
        }
        if lean == 1 {
            spans.push((start, end));
            continue;
        }
        // L1: declared EncodeLike relations with primitive integers store bytes the slot type can read
        if let Some(v0) = r.vals.first() {
            match catch_unwind(|| (ops.el_check)(*v0)) {
                Ok(None) => log.ev(ev::CHECK_OK, check_no("L1"), i as u64),
                Ok(Some(m)) => {
                    log.ev(ev::CHECK_FAIL, check_no("L1"), i as u64);
                    return Err(viol("L1", i, &f0, m));
                }
                Err(p) => return Err(viol("L1", i, &f0, format!("{}: EncodeLike probe unwound: {}", ops.name, panic_msg(p)))),
            }
        }
        if i == 0 {
            // L1, compound peers (pairs of fixed-point types / of integers, byte arrays): family level
            match catch_unwind(simcore::lay::el_compound_check) {
                Ok((_, None)) => {}
                Ok((_, Some(m))) => {
                    log.ev(ev::CHECK_FAIL, check_no("L1"), i as u64);
                    return Err(viol("L1", i, &f0, m));
                }
                Err(p) => return Err(viol("L1", i, &f0, format!("EncodeLike probe (compound peers) unwound: {}", panic_msg(p)))),
            }
        }
        // M1: published metadata describes the plain integer
        match catch_unwind(|| (ops.meta_check)()) {
            Ok(Ok(())) => log.ev(ev::CHECK_OK, check_no("M1"), i as u64),
            Ok(Err(m)) => {
                log.ev(ev::CHECK_FAIL, check_no("M1"), i as u64);
                return Err(viol("M1", i, &f0, format!("{}: {}", ops.name, m)));
            }
            Err(p) => return Err(viol("M1", i, &f0, format!("{}: type_info unwound: {}", ops.name, panic_msg(p)))),
        }
        spans.push((start, end));
    }
    if simcore::serde_tok::SERDE_ON && !CODEC_ONLY.load(Ordering::Relaxed) && LEAN.load(Ordering::Relaxed) == 0 {
        for (k, o) in t.serde.iter().enumerate() {
            serde_op(table, o, k, &mut log)?;
        }
    }
    Ok(Written { medium, spans, digest: log.digest.finish(), steps: log.steps, ok: log.ok, events: log.record, nest_fired: nest_total })
}

// ------------------------------------------------------------------ serde seam

fn serde_op(table: &[Ops], o: &SerdeOp, k: usize, log: &mut Log) -> Result<(), Violation> {
    let f0 = Fault::None;
    let l = &table[o.lay as usize];
    let s = &l.serde;
    let bits = o.bits;
    let un = |p: Box<dyn std::any::Any + Send>| panic_msg(p);
    // S1: the token stream is exactly Struct{name,1} Field("bits") Int End
    let want = vec![Tok::Struct(l.struct_name.to_string(), 1), Tok::Field("bits".into()), Tok::Int(l.w, bits, l.signed), Tok::End];
    // (for a serializer that calls itself human readable and for one that does not)
    for hr in [true, false] {
        match catch_unwind(|| (s.ser)(bits, o.wrapping, hr)) {
            Ok(Ok(toks)) => {
                if toks != want {
                    log.ev(ev::CHECK_FAIL, check_no("S1"), k as u64);
                    return Err(viol("S1", k, &f0, format!("{} (wrapping={}, human_readable={}) serialised as {:?}, want {:?}", l.name, o.wrapping, hr, toks, want)));
                }
            }
            Ok(Err(m)) => return Err(viol("S1", k, &f0, format!("{} (human_readable={}): serialize failed: {}", l.name, hr, m))),
            Err(p) => return Err(viol("S1", k, &f0, format!("{}: serialize unwound: {}", l.name, un(p)))),
        }
    }
    log.ev(ev::CHECK_OK, check_no("S1"), k as u64);
    // S2 / S3: every presentation x every stream fault x (fresh value | deserialize_in_place into a used slot)
    for pres in PRESENTATIONS {
        for fault in SERDE_FAULTS {
            if fault == SerdeFault::ValueError && pres.is_seq() {
                continue; // same as AccessError for sequences
            }
            for (hr, in_place) in [(true, false), (false, false), (true, true)] {
                let r = catch_unwind(|| (s.de)(bits, o.wrapping, pres, fault, hr, in_place));
                log.ev(ev::REC_READ, (in_place as u64) << 16 | (pres as u64) << 8 | fault as u64, k as u64);
                match r {
                    Err(p) => {
                        let id = if fault == SerdeFault::None { "S2" } else { "S3" };
                        return Err(viol(id, k, &f0, format!("{}: deserialize ({:?}, {:?}, in_place={}) unwound: {}", l.name, pres, fault, in_place, un(p))));
                    }
                    Ok((res, asked)) => {
                        match &asked {
                            Some((name, fields)) if name == l.struct_name && fields.len() == 1 && fields[0] == "bits" => {}
                            other => {
                                log.ev(ev::CHECK_FAIL, check_no("S2"), k as u64);
                                return Err(viol("S2", k, &f0, format!("{}: deserialize asked the format for {:?}, want struct {} with fields [bits]", l.name, other, l.struct_name)));
                            }
                        }
                        if fault == SerdeFault::None {
                            if res != Ok(bits) {
                                log.ev(ev::CHECK_FAIL, check_no("S2"), k as u64);
                                return Err(viol("S2", k, &f0, format!("{} (wrapping={}, in_place={}): presented {:#x} as {:?}, deserialised to {:?}", l.name, o.wrapping, in_place, bits, pres, res)));
                            }
                        } else if res.is_ok() {
                            log.ev(ev::CHECK_FAIL, check_no("S3"), k as u64);
                            return Err(viol("S3", k, &f0, format!("{}: stream fault {:?} under {:?} (in_place={}) still produced {:?}", l.name, fault, pres, in_place, res)));
                        }
                    }
                }
            }
        }
    }
    log.ev(ev::CHECK_OK, check_no("S2"), k as u64);
    log.ev(ev::CHECK_OK, check_no("S3"), k as u64);
    // S4: two real formats, differential against a derived `{ bits }` struct of the underlying integer,
    // including every strict prefix of the encoded text / bytes (a cut stream must fail for both)
    let js = catch_unwind(|| ((s.json)(bits, o.wrapping), (s.json_twin)(bits)));
    match js {
        Err(p) => return Err(viol("S4", k, &f0, format!("{}: serde_json serialisation unwound: {}", l.name, un(p)))),
        Ok((a, b)) => {
            if a != b {
                log.ev(ev::CHECK_FAIL, check_no("S4"), k as u64);
                return Err(viol("S4", k, &f0, format!("{}: JSON {:?}, one-field integer struct gives {:?}", l.name, a, b)));
            }
            if let Ok(text) = a {
                for cut in 0..=text.len() {
                    if !text.is_char_boundary(cut) {
                        continue;
                    }
                    let part = &text[..cut];
                    let r = catch_unwind(|| ((s.unjson)(part, o.wrapping), (s.unjson_twin)(part)));
                    match r {
                        Err(p) => return Err(viol("S4", k, &f0, format!("{}: serde_json parse of {:?} unwound: {}", l.name, part, un(p)))),
                        Ok((x, y)) => {
                            let same = match (&x, &y) {
                                (Ok(a), Ok(b)) => a == b,
                                (Err(_), Err(_)) => true,
                                _ => false,
                            };
                            let full_ok = cut < text.len() || x == Ok(bits);
                            if !same || !full_ok {
                                log.ev(ev::CHECK_FAIL, check_no("S4"), k as u64);
                                return Err(viol("S4", k, &f0, format!("{}: JSON {:?} parsed to {:?}, one-field integer struct to {:?}", l.name, part, x, y)));
                            }
                        }
                    }
                }
                // other spellings of the same document: escaped key (forces an owned key string), extra
                // whitespace, and delivery through a reader instead of a borrowed str
                let num = &text[text.find(':').map(|i| i + 1).unwrap_or(0)..text.len().saturating_sub(1)];
                for alt in [format!("{{\"b\\u0069ts\":{}}}", num), format!(" {{ \"bits\" :\n {} }} ", num)] {
                    let r = catch_unwind(|| ((s.unjson)(&alt, o.wrapping), (s.unjson_reader)(&alt, o.wrapping), (s.unjson_twin)(&alt)));
                    match r {
                        Ok((x, z, y)) if x == y && z == y && y == Ok(bits) => {}
                        Ok((x, z, y)) => {
                            log.ev(ev::CHECK_FAIL, check_no("S4"), k as u64);
                            return Err(viol("S4", k, &f0, format!("{}: JSON {:?} parsed to {:?} (from_str) / {:?} (from_reader), one-field integer struct to {:?}", l.name, alt, x, z, y)));
                        }
                        Err(p) => return Err(viol("S4", k, &f0, format!("{}: serde_json parse of {:?} unwound: {}", l.name, alt, un(p)))),
                    }
                }
                // sequence form, as compact formats present structs
                let seq = format!("[{}]", &text[text.find(':').map(|i| i + 1).unwrap_or(0)..text.len().saturating_sub(1)]);
                let r = catch_unwind(|| ((s.unjson)(&seq, o.wrapping), (s.unjson_twin)(&seq)));
                match r {
                    Ok((x, y)) if x == y && x == Ok(bits) => {}
                    Ok((x, y)) => {
                        log.ev(ev::CHECK_FAIL, check_no("S4"), k as u64);
                        return Err(viol("S4", k, &f0, format!("{}: JSON sequence form {:?} parsed to {:?}, twin {:?}", l.name, seq, x, y)));
                    }
                    Err(p) => return Err(viol("S4", k, &f0, format!("{}: serde_json parse of {:?} unwound: {}", l.name, seq, un(p)))),
                }
            }
        }
    }
    // S5: an integer that does not fit the width must not be accepted as some other value: whenever the
    // derived `{ bits }` struct of the underlying integer rejects the text, so must the library
    {
        let w = l.w;
        let (hi, lo): (String, String) = if w == 128 {
            if l.signed {
                ("170141183460469231731687303715884105728".into(), "-170141183460469231731687303715884105729".into())
            } else {
                ("340282366920938463463374607431768211456".into(), "-1".into())
            }
        } else if l.signed {
            ((1i128 << (w - 1)).to_string(), (-(1i128 << (w - 1)) - 1).to_string())
        } else {
            ((1u128 << w).to_string(), "-1".into())
        };
        let wrapped_hint = bits.to_string();
        for n in [hi, lo, format!("{}{}", wrapped_hint, "0000000000000000000000000000000000000000")] {
            for text in [format!("{{\"bits\":{}}}", n), format!("[{}]", n)] {
                let r = catch_unwind(|| ((s.unjson)(&text, o.wrapping), (s.unjson_twin)(&text)));
                match r {
                    Err(p) => return Err(viol("S5", k, &f0, format!("{}: serde_json parse of {:?} unwound: {}", l.name, text, un(p)))),
                    Ok((x, y)) => {
                        if y.is_err() && x.is_ok() {
                            log.ev(ev::CHECK_FAIL, check_no("S5"), k as u64);
                            return Err(viol("S5", k, &f0, format!("{}: out-of-range {:?} was accepted as {:?}; the one-field integer struct rejects it ({:?})", l.name, text, x, y)));
                        }
                    }
                }
            }
        }
        // the same rule for a document that carries the field twice with different in-range values: two
        // readers of such a document must not silently settle on different values
        let other = (bits ^ 1) & l.mask();
        let render = |b: u128| -> String {
            if l.signed {
                let sh = 128 - w;
                (((b << sh) as i128) >> sh).to_string()
            } else {
                b.to_string()
            }
        };
        let text = format!("{{\"bits\":{},\"bits\":{}}}", render(bits), render(other));
        match catch_unwind(|| ((s.unjson)(&text, o.wrapping), (s.unjson_twin)(&text))) {
            Err(p) => return Err(viol("S5", k, &f0, format!("{}: serde_json parse of {:?} unwound: {}", l.name, text, un(p)))),
            Ok((x, y)) => {
                if y.is_err() && x.is_ok() {
                    log.ev(ev::CHECK_FAIL, check_no("S5"), k as u64);
                    return Err(viol("S5", k, &f0, format!("{}: {:?} (the field twice, different values) was accepted as {:?}; the one-field integer struct rejects it ({:?})", l.name, text, x, y)));
                }
            }
        }
        log.ev(ev::CHECK_OK, check_no("S5"), k as u64);
    }
    // S4, documents with several values (a list, an optional, a value behind an untagged enum, a plain
    // field after them, a foreign field) in both real formats: same text / bytes as the integer twin,
    // and for the full document and every strict prefix the same values or the same refusal. The serde
    // analogue of a multi-record stream: a value that takes more or less of the stream than it should
    // shifts what follows.
    {
        let m = l.mask();
        let vals: [u128; 4] = [bits, !bits & m, bits.rotate_left(9) & m, (bits >> 1) & m];
        match catch_unwind(|| (s.doc_json)(&vals, o.wrapping)) {
            Err(p) => return Err(viol("S4", k, &f0, format!("{}: serde_json serialisation of a document unwound: {}", l.name, un(p)))),
            Ok((a, b)) => {
                if a != b {
                    log.ev(ev::CHECK_FAIL, check_no("S4"), k as u64);
                    return Err(viol("S4", k, &f0, format!("{}: JSON document {:?}, with integer fields {:?}", l.name, a, b)));
                }
                if let Ok(text) = a {
                    // every prefix is too many for long documents; all cuts near a value and a stride elsewhere
                    for cut in 0..=text.len() {
                        if !text.is_char_boundary(cut) || (cut < text.len() && text.len() > 160 && cut % 3 != (bits as usize) % 3) {
                            continue;
                        }
                        let part = &text[..cut];
                        match catch_unwind(|| (s.doc_unjson)(part, o.wrapping)) {
                            Err(p) => return Err(viol("S4", k, &f0, format!("{}: serde_json parse of document {:?} unwound: {}", l.name, part, un(p)))),
                            Ok((x, y)) => {
                                let same = match (&x, &y) {
                                    (Ok(a), Ok(b)) => a == b,
                                    (Err(_), Err(_)) => true,
                                    _ => false,
                                };
                                if !same {
                                    log.ev(ev::CHECK_FAIL, check_no("S4"), k as u64);
                                    return Err(viol("S4", k, &f0, format!("{}: JSON document {:?} parsed to {:x?}, with integer fields to {:x?}", l.name, part, x, y)));
                                }
                            }
                        }
                    }
                }
            }
        }
        match catch_unwind(|| (s.doc_cbor)(&vals, o.wrapping)) {
            Err(p) => return Err(viol("S4", k, &f0, format!("{}: serde_cbor serialisation of a document unwound: {}", l.name, un(p)))),
            Ok((a, b)) => {
                if a != b {
                    log.ev(ev::CHECK_FAIL, check_no("S4"), k as u64);
                    return Err(viol("S4", k, &f0, format!("{}: CBOR document {:02x?}, with integer fields {:02x?}", l.name, a, b)));
                }
                if let Ok(bytes) = a {
                    for cut in 0..=bytes.len() {
                        let part = &bytes[..cut];
                        match catch_unwind(|| (s.doc_uncbor)(part, o.wrapping)) {
                            Err(p) => return Err(viol("S4", k, &f0, format!("{}: serde_cbor parse of document {:02x?} unwound: {}", l.name, part, un(p)))),
                            Ok((x, y)) => {
                                let same = match (&x, &y) {
                                    (Ok(a), Ok(b)) => a == b,
                                    (Err(_), Err(_)) => true,
                                    _ => false,
                                };
                                if !same {
                                    log.ev(ev::CHECK_FAIL, check_no("S4"), k as u64);
                                    return Err(viol("S4", k, &f0, format!("{}: CBOR document {:02x?} parsed to {:x?}, with integer fields to {:x?}", l.name, part, x, y)));
                                }
                            }
                        }
                    }
                }
            }
        }
    }
    let cb = catch_unwind(|| ((s.cbor)(bits, o.wrapping), (s.cbor_twin)(bits)));
    match cb {
        Err(p) => return Err(viol("S4", k, &f0, format!("{}: serde_cbor serialisation unwound: {}", l.name, un(p)))),
        Ok((a, b)) => {
            if a != b {
                log.ev(ev::CHECK_FAIL, check_no("S4"), k as u64);
                return Err(viol("S4", k, &f0, format!("{}: CBOR {:02x?}, one-field integer struct gives {:02x?}", l.name, a, b)));
            }
            if let Ok(bytes) = a {
                for cut in 0..=bytes.len() {
                    let part = &bytes[..cut];
                    let r = catch_unwind(|| ((s.uncbor)(part, o.wrapping), (s.uncbor_twin)(part)));
                    match r {
                        Err(p) => return Err(viol("S4", k, &f0, format!("{}: serde_cbor parse of {:02x?} unwound: {}", l.name, part, un(p)))),
                        Ok((x, y)) => {
                            let same = match (&x, &y) {
                                (Ok(a), Ok(b)) => a == b,
                                (Err(_), Err(_)) => true,
                                _ => false,
                            };
                            let full_ok = cut < bytes.len() || x == Ok(bits);
                            if !same || !full_ok {
                                log.ev(ev::CHECK_FAIL, check_no("S4"), k as u64);
                                return Err(viol("S4", k, &f0, format!("{}: CBOR {:02x?} parsed to {:?}, one-field integer struct to {:?}", l.name, part, x, y)));
                            }
                        }
                    }
                }
            }
        }
    }
    log.ev(ev::CHECK_OK, check_no("S4"), k as u64);
    Ok(())
}

// ------------------------------------------------------------------ read passes

#[derive(Default, Clone, Debug)]
pub struct PassStats {
    /// the fault landed inside a record that a reader then asked for
    pub fired: bool,
    pub short_reads: u32,
    pub eintrs: u32,
    pub steps: u64,
    pub records_read: u32,
    /// decodes that failed only because the input answered Err to remaining_len() (tolerated)
    pub rl_err_propagated: u32,
    /// second tasks run inside a seam call of a decode
    pub nest_fired: u32,
}

pub struct PassOut {
    pub violation: Option<Violation>,
    pub stats: PassStats,
    pub digest: u64,
    pub events: Option<Vec<(u8, u64, u64)>>,
    pub ok: [u32; 24],
}

#[derive(Debug, PartialEq, Eq, Clone)]
enum Outcome {
    Ok(Option<Vec<u128>>),
    Err(String),
    Panic(String),
}
impl Outcome {
    fn class(&self) -> u64 {
        match self {
            Outcome::Ok(_) => 0,
            Outcome::Err(_) => 1,
            Outcome::Panic(_) => 2,
        }
    }
}

fn run_reader(f: fn(Shape, Reader, &mut SimInput) -> Result<Option<Vec<u128>>, codec::Error>, shape: Shape, reader: Reader, inp: &mut SimInput) -> Outcome {
    match catch_unwind(AssertUnwindSafe(|| f(shape, reader, inp))) {
        Ok(Ok(v)) => Outcome::Ok(v),
        Ok(Err(e)) => Outcome::Err(e.to_string()),
        Err(p) => Outcome::Panic(panic_msg(p)),
    }
}

/// Apply the byte-level part of a fault to the medium.
pub fn materialise(medium: &[u8], fault: &Fault) -> (Vec<u8>, Option<usize>) {
    match fault {
        Fault::None | Fault::ReaderWider(_) | Fault::TransientAt(_) => (medium.to_vec(), None),
        Fault::TruncateAt(t) => (medium[..(*t).min(medium.len())].to_vec(), None),
        Fault::IoErrorAt(t) => (medium.to_vec(), Some(*t)),
        Fault::BitFlip(p) => {
            let mut m = medium.to_vec();
            if p / 8 < m.len() {
                m[p / 8] ^= 1 << (p % 8);
            }
            (m, None)
        }
        Fault::Trailing(b) => {
            let mut m = medium.to_vec();
            m.extend_from_slice(b);
            (m, None)
        }
    }
}

pub fn read_pass(table: &[Ops], t: &Trace, w: &Written, fault: &Fault, record: bool) -> PassOut {
    let (data, err_from) = materialise(&w.medium, fault);
    let hook = || t.input.nest.as_ref().and_then(|n| nested_task(table, n));
    let mut inp = SimInput::new(&data, 0, err_from, t.input.clone(), record);
    if t.input.nest.is_some() {
        inp.hook = Some(&hook);
    }
    if let Fault::TransientAt(x) = fault {
        inp.transient_at = Some(*x);
    }
    inp.log.ev(ev::PASS_BEGIN, fault.kind() as u64, match fault {
        Fault::TruncateAt(x) | Fault::IoErrorAt(x) | Fault::BitFlip(x) | Fault::TransientAt(x) => *x as u64,
        Fault::Trailing(b) => b.len() as u64,
        Fault::ReaderWider(l) => *l as u64,
        Fault::None => 0,
    });
    let mut stats = PassStats::default();
    let mut violation = None;
    let last = t.records.len().saturating_sub(1);
    let cut: Option<usize> = match fault {
        Fault::TruncateAt(x) | Fault::IoErrorAt(x) => Some(*x),
        _ => None,
    };
    let flip_byte: Option<usize> = match fault {
        Fault::BitFlip(p) if p / 8 < w.medium.len() => Some(p / 8),
        _ => None,
    };
    for (i, r) in t.records.iter().enumerate() {
        let (s, e) = w.spans[i];
        let mut rops = &table[r.r_lay as usize];
        let wb = rops.wb();
        let mut reader = r.reader;
        if reader.last_only() && i != last {
            reader = if reader == Reader::DecodeAll { Reader::Decode } else { Reader::DecodeLimit };
        }
        let mut expect_vals = expected_values(r);
        // what must happen?
        #[derive(PartialEq)]
        enum Want {
            Values,
            MustErr,
            Twin,
        }
        let mut want = Want::Values;
        let mut check_ok: &'static str = "D1";
        if let Some(c) = cut {
            if e > c {
                want = Want::MustErr;
                stats.fired = true;
            }
        }
        if let Some(q) = flip_byte {
            if s <= q && q < e {
                stats.fired = true;
                let (_, pspans) = model_bytes(r, wb);
                let p = match fault {
                    Fault::BitFlip(p) => *p,
                    _ => unreachable!(),
                };
                match pspans.iter().find(|(off, len, _)| s + off <= q && q < s + off + len) {
                    Some((off, _, j)) => {
                        let bit = 8 * (q - (s + off)) + p % 8;
                        expect_vals[*j] ^= 1u128 << bit;
                        check_ok = "D4";
                    }
                    None => {
                        want = Want::Twin;
                        check_ok = "D4";
                    }
                }
            }
        }
        if let Fault::Trailing(b) = fault {
            if i == last && !b.is_empty() {
                stats.fired = true;
                if reader.last_only() {
                    want = Want::MustErr;
                }
            }
        }
        if let Fault::ReaderWider(l) = fault {
            if i == last && r.shape == Shape::Bare {
                rops = &table[*l as usize];
                want = Want::MustErr;
                stats.fired = true;
                if matches!(reader, Reader::Skip) {
                    reader = Reader::Decode;
                }
            }
        }
        let pos_before = inp.pos;
        let depth_before = inp.depth;
        let alloc_before = inp.alloc_bytes;
        inp.rl_err_returned = false;
        inp.calls = 0;
        let fired_before = inp.nest_fired;
        let transient_before = inp.transient_fired;
        let out = run_reader(rops.dec, r.shape, reader, &mut inp);
        stats.records_read += 1;
        if inp.transient_fired && !transient_before {
            // a read issued by this decode failed after consuming part of what it asked for: those bytes
            // are gone, the decode must fail (the integer's does); asking again completes the value from
            // bytes that do not belong to it
            want = Want::MustErr;
            stats.fired = true;
        }
        if let Some(m) = inp.nest_fail.take() {
            if let Some((id, m2)) = standalone_failure(table, t) {
                violation = Some(viol(id, i, fault, format!("(met as the second task of this history, but independent of the interleaving) {}", m2)));
                inp.log.ev(ev::REC_READ, i as u64, (out.class() << 32) | inp.pos as u64);
                break;
            }
            // R1: the second task, run while this decode was suspended inside Input::read, went wrong
            violation = Some(viol("R1", i, fault, format!("while record {} ({} {:?} via {:?}) was being read (suspended in an Input call), a second task ran and went wrong: {}", i, rops.name, r.shape, reader, m)));
            inp.log.ev(ev::REC_READ, i as u64, (out.class() << 32) | inp.pos as u64);
            break;
        }
        if inp.nest_fired > fired_before {
            stats.nest_fired += inp.nest_fired - fired_before;
            inp.log.ev(ev::CHECK_OK, check_no("R1"), i as u64);
        }
        inp.log.ev(ev::REC_READ, i as u64, (out.class() << 32) | inp.pos as u64);
        if let Outcome::Panic(_) = &out {
            inp.log.ev(ev::PANIC, i as u64, 0);
        }
        let desc = || format!("record {} [{}..{}) {} {:?} written via {:?}, read as {} via {:?} under {:?}", i, s, e, table[r.w_lay as usize].name, r.shape, r.writer, rops.name, reader, fault);
        match want {
            Want::Values => {
                let id: &'static str = if check_ok == "D4" { "D4" } else { "D1" };
                match &out {
                    Outcome::Ok(v) => {
                        if let Some(v) = v {
                            if *v != expect_vals {
                                violation = Some(viol(id, i, fault, format!("{}: decoded {:x?}, model says {:x?}", desc(), v, expect_vals)));
                            }
                        }
                        if violation.is_none() && inp.pos != e {
                            violation = Some(viol("D2", i, fault, format!("{}: consumed {} bytes (position {}), the record is {} bytes (ends at {})", desc(), inp.pos - pos_before, inp.pos, e - s, e)));
                        }
                    }
                    Outcome::Err(_) if inp.rl_err_returned => {
                        // narrow relaxation: the input itself answered Err to remaining_len() during this
                        // decode; a reader that asks and propagates that failure (codec's own Vec<integer>
                        // fast path does) has not mis-decoded anything. Nothing further is asserted.
                        inp.log.ev(ev::CHECK_OK, 98, i as u64);
                        stats.rl_err_propagated += 1;
                        break;
                    }
                    Outcome::Err(m) => violation = Some(viol(id, i, fault, format!("{}: decode failed ({}) although all {} bytes were deliverable", desc(), m, e - s))),
                    Outcome::Panic(m) => violation = Some(viol(id, i, fault, format!("{}: decode unwound: {}", desc(), m))),
                }
                if violation.is_none() && matches!(out, Outcome::Ok(_)) && inp.depth != depth_before {
                    // descend_ref / ascend_ref must balance on success: a level leaked per value makes
                    // depth-limited decoding (DecodeLimit, 256 for extrinsics) reject long, flat, valid data
                    violation = Some(viol("D7", i, fault, format!("{}: decode succeeded but left the input's nesting depth at {} (was {}): descend_ref without matching ascend_ref", desc(), inp.depth, depth_before)));
                }
                if violation.is_none() && matches!(fault, Fault::None) && matches!(out, Outcome::Ok(_)) && reader.container_ok() && !matches!(reader, Reader::Metadata | Reader::IntegerTwin | Reader::DecodeAll | Reader::DecodeAllLimit) {
                    // D8: the heap budget requested through `on_before_alloc_mem` equals what the same shape of
                    // the underlying integer requests on the same bytes (nothing for a bare value: the type owns
                    // no heap). Charging more makes memory-limited decoding (`decode_with_mem_limit`) reject
                    // valid data that the integers pass.
                    let asked = inp.alloc_bytes - alloc_before;
                    let mut tw = SimInput::new(&data, s, err_from, InputMode::plain(), false);
                    let tr = if matches!(reader, Reader::Skip) { Reader::Skip } else { Reader::Decode };
                    if let Outcome::Ok(_) = run_reader(rops.dec_twin, r.shape, tr, &mut tw) {
                        if tw.alloc_bytes != asked {
                            violation = Some(viol("D8", i, fault, format!("{}: decoding asked the input for {} bytes of heap (on_before_alloc_mem), the integer twin of the same shape for {}", desc(), asked, tw.alloc_bytes)));
                        }
                    }
                }
                if violation.is_some() {
                    break;
                }
                inp.log.ev(ev::CHECK_OK, check_no(id), i as u64);
                inp.log.ev(ev::CHECK_OK, check_no("D2"), i as u64);
                inp.log.ev(ev::CHECK_OK, check_no("D7"), i as u64);
                if matches!(fault, Fault::None) {
                    inp.log.ev(ev::CHECK_OK, check_no("D8"), i as u64);
                }
                if t.input != InputMode::plain() {
                    inp.log.ev(ev::CHECK_OK, check_no("D5"), i as u64);
                }
            }
            Want::MustErr => {
                match &out {
                    Outcome::Err(_) => {}
                    Outcome::Ok(v) if matches!(fault, Fault::TransientAt(_)) => violation = Some(viol("D3", i, fault, format!("{}: a read of this decode failed after consuming part of the record (transient failure), yet decoding returned Ok({:x?})", desc(), v))),
                    Outcome::Ok(v) => violation = Some(viol("D3", i, fault, format!("{}: only {} of the record's {} bytes were deliverable, yet decoding returned Ok({:x?})", desc(), cut.map(|c| c.saturating_sub(s)).unwrap_or(e - s), e - s, v))),
                    Outcome::Panic(m) => violation = Some(viol("D3", i, fault, format!("{}: decoding short input unwound instead of returning Err: {}", desc(), m))),
                }
                if violation.is_some() {
                    break;
                }
                inp.log.ev(ev::CHECK_OK, check_no("D3"), i as u64);
                // D6: recovery — the same reader on an intact copy, one step later, sees the model value
                if !matches!(fault, Fault::ReaderWider(_)) {
                    let rd = if reader.last_only() && (i != last || matches!(fault, Fault::Trailing(_))) { Reader::Decode } else { reader };
                    // first the way a caller retries: through the *same* input object, re-pointed at the
                    // intact bytes (same address, same variable) ...
                    let (sr0, ei0) = inp.io_stats();
                    stats.short_reads += sr0;
                    stats.eintrs += ei0;
                    inp.data = &w.medium;
                    inp.pos = s;
                    inp.err_from = None;
                    inp.transient_at = None;
                    inp.mode = InputMode::plain();
                    inp.io = None;
                    inp.hook = None;
                    inp.depth = 0;
                    let again = run_reader(table[r.r_lay as usize].dec, r.shape, rd, &mut inp);
                    let good = match &again {
                        Outcome::Ok(Some(v)) => *v == expected_values(r) && inp.pos == e,
                        Outcome::Ok(None) => inp.pos == e,
                        _ => false,
                    };
                    inp.log.ev(ev::REC_READ, i as u64, (again.class() << 32) | inp.pos as u64);
                    if !good {
                        violation = Some(viol("D6", i, fault, format!("{}: after the failed decode, re-reading the intact record through the same input object gave {:x?} (position {})", desc(), again, inp.pos)));
                        break;
                    }
                    // ... then through a fresh one
                    let mut fresh = SimInput::new(&w.medium, s, None, InputMode::plain(), false);
                    let again = run_reader(table[r.r_lay as usize].dec, r.shape, rd, &mut fresh);
                    let good = match &again {
                        Outcome::Ok(Some(v)) => *v == expected_values(r) && fresh.pos == e,
                        Outcome::Ok(None) => fresh.pos == e,
                        _ => false,
                    };
                    inp.log.ev(ev::REC_READ, i as u64, (again.class() << 32) | fresh.pos as u64);
                    if !good {
                        violation = Some(viol("D6", i, fault, format!("{}: after the failed decode, re-reading the intact record gave {:x?} (position {})", desc(), again, fresh.pos)));
                        break;
                    }
                    inp.log.ev(ev::CHECK_OK, check_no("D6"), i as u64);
                }
                break; // nothing is asserted after a failed decode
            }
            Want::Twin => {
                if let Outcome::Panic(m) = &out {
                    violation = Some(viol("D4", i, fault, format!("{}: decoding corrupted framing unwound: {}", desc(), m)));
                    break;
                }
                // framing byte corrupted: judged only against the underlying integer on the same bytes
                let mut mode = t.input.clone();
                if mode.rl == RlMode::Err {
                    mode.rl = RlMode::Exact;
                }
                let tr = if reader.container_ok() && !matches!(reader, Reader::Metadata | Reader::IntegerTwin) { reader } else { Reader::Decode };
                let mut a = SimInput::new(&data, s, err_from, mode.clone(), false);
                let fixed = if mode == t.input { out.clone() } else { run_reader(rops.dec, r.shape, reader, &mut a) };
                let fixed_pos = if mode == t.input { inp.pos } else { a.pos };
                let mut b = SimInput::new(&data, s, err_from, mode, false);
                let twin = run_reader(rops.dec_twin, r.shape, tr, &mut b);
                let same = match (&fixed, &twin) {
                    (Outcome::Ok(Some(x)), Outcome::Ok(Some(y))) => x == y && fixed_pos == b.pos,
                    (Outcome::Ok(None), Outcome::Ok(_)) | (Outcome::Ok(_), Outcome::Ok(None)) => fixed_pos == b.pos,
                    (Outcome::Err(_), Outcome::Err(_)) => true,
                    _ => false,
                };
                inp.log.ev(ev::REC_READ, i as u64, (twin.class() << 32) | b.pos as u64);
                if !same {
                    violation = Some(viol("D4", i, fault, format!("{}: corrupted framing decoded to {:x?} (position {}), the integer twin on the same bytes to {:x?} (position {})", desc(), fixed, fixed_pos, twin, b.pos)));
                    break;
                }
                inp.log.ev(ev::CHECK_OK, check_no("D4"), i as u64);
                break; // the stream may be desynchronised from here on
            }
        }
    }
    let (sr, ei) = inp.io_stats();
    stats.short_reads += sr;
    stats.eintrs += ei;
    stats.steps = inp.log.steps;
    // D5 (absorption): a D1/D2 failure that disappears when the very same history and fault are replayed
    // through a plain input (exact remaining_len, default read_byte, no IoReader chunking / EINTR) is a
    // failure to absorb the delivery mode, not a wrong encoding. Decided here so that the class is stable
    // under minimisation.
    if let Some(v) = violation.as_mut() {
        if (v.check == "D1" || v.check == "D2") && t.input != InputMode::plain() {
            let mut plain = t.clone();
            plain.input = InputMode::plain();
            if read_pass(table, &plain, w, fault, false).violation.is_none() {
                v.check = "D5";
            }
        }
    }
    if let Some(v) = &violation {
        inp.log.ev(ev::CHECK_FAIL, check_no(v.check), v.rec as u64);
    }
    PassOut { violation, stats, digest: inp.log.digest.finish(), ok: inp.log.ok, events: inp.log.record.take() }
}
