//! c10sim — deterministic simulation with fault injection of the SCALE / serde
//! stream seams of substrate-fixed (property C10). See /verif/DESIGN.md §4.
//!
//! exit 0: the property held on everything explored
//! exit 1: `VIOLATION property=C10 replay=<path>` (after minimisation and a fresh-process replay)
//! exit 2: harness / usage error (never reported as a violation)

#![recursion_limit = "512"]
mod exec;
mod gen;
mod shrink;
mod table;

use exec::{read_pass, validate, write_phase, Violation};
use gen::{endian_sensitive, fault_plan, generate, Tier, World};
use simcore::prng::Digest;
use simcore::{seams, trace};
use serde_json::{json, Value};
use std::collections::{BTreeMap, HashMap};
use std::sync::atomic::{AtomicBool, AtomicU64, Ordering};
use std::time::Instant;
use trace::{Fault, Shape, Trace, FAULT_KINDS, MODE_KINDS, READERS, SHAPES, WRITERS};

const PROPERTY: &str = "C10";
const DEFAULT_SEED: u64 = 20260926;

// ------------------------------------------------------------------ statistics

struct Stats {
    histories: u64,
    executions: u64,
    steps: u64,
    records_written: u64,
    records_read: u64,
    serde_ops: u64,
    fault_configured: [u64; 7],
    fault_fired: [u64; 7],
    mode_hist: [u64; 6],
    short_reads: u64,
    eintrs: u64,
    rl_err_propagated: u64,
    /// histories with an interleaved second task; second tasks actually run inside an Output / Input call
    nest_hist: u64,
    nest_fired_w: u64,
    nest_fired_r: u64,
    checks_ok: [u64; 24],
    lay_written: Vec<u64>,
    lay_read: Vec<u64>,
    cell_fswr: Vec<u64>,
    cell_fault: Vec<u64>,
    /// history digest -> number of non-trivial executions of that history
    distinct: HashMap<u64, u32>,
    known_hits: BTreeMap<String, u64>,
    max_stream: usize,
    max_records: usize,
}
const FSWR_CELLS: usize = 10 * 12 * 14 * 16;
const FAULT_CELLS: usize = 10 * 3 * 16;
impl Stats {
    fn new(nlay: usize) -> Stats {
        Stats {
            histories: 0,
            executions: 0,
            steps: 0,
            records_written: 0,
            records_read: 0,
            serde_ops: 0,
            fault_configured: [0; 7],
            fault_fired: [0; 7],
            mode_hist: [0; 6],
            short_reads: 0,
            eintrs: 0,
            rl_err_propagated: 0,
            nest_hist: 0,
            nest_fired_w: 0,
            nest_fired_r: 0,
            checks_ok: [0; 24],
            lay_written: vec![0; nlay],
            lay_read: vec![0; nlay],
            cell_fswr: vec![0; (FSWR_CELLS + 63) / 64],
            cell_fault: vec![0; (FAULT_CELLS + 63) / 64],
            distinct: HashMap::new(),
            known_hits: BTreeMap::new(),
            max_stream: 0,
            max_records: 0,
        }
    }
    fn merge(&mut self, o: Stats) {
        self.histories += o.histories;
        self.executions += o.executions;
        self.steps += o.steps;
        self.records_written += o.records_written;
        self.records_read += o.records_read;
        self.serde_ops += o.serde_ops;
        for i in 0..7 {
            self.fault_configured[i] += o.fault_configured[i];
            self.fault_fired[i] += o.fault_fired[i];
        }
        for i in 0..6 {
            self.mode_hist[i] += o.mode_hist[i];
        }
        self.short_reads += o.short_reads;
        self.eintrs += o.eintrs;
        self.rl_err_propagated += o.rl_err_propagated;
        self.nest_hist += o.nest_hist;
        self.nest_fired_w += o.nest_fired_w;
        self.nest_fired_r += o.nest_fired_r;
        for i in 0..24 {
            self.checks_ok[i] += o.checks_ok[i];
        }
        for (a, b) in self.lay_written.iter_mut().zip(o.lay_written) {
            *a += b;
        }
        for (a, b) in self.lay_read.iter_mut().zip(o.lay_read) {
            *a += b;
        }
        for (a, b) in self.cell_fswr.iter_mut().zip(o.cell_fswr) {
            *a |= b;
        }
        for (a, b) in self.cell_fault.iter_mut().zip(o.cell_fault) {
            *a |= b;
        }
        for (k, v) in o.distinct {
            // the same history reached from two run indices counts once
            self.distinct.entry(k).or_insert(v);
        }
        for (k, v) in o.known_hits {
            *self.known_hits.entry(k).or_insert(0) += v;
        }
        self.max_stream = self.max_stream.max(o.max_stream);
        self.max_records = self.max_records.max(o.max_records);
    }
}
fn set_bit(v: &mut [u64], i: usize) {
    v[i / 64] |= 1 << (i % 64);
}
fn count_bits(v: &[u64]) -> u64 {
    v.iter().map(|x| x.count_ones() as u64).sum()
}

fn valid_fswr_cells() -> u64 {
    // bare: every writer x every reader; containers: container-capable writers x readers
    let cw = WRITERS.iter().filter(|w| w.container_ok()).count() as u64;
    let cr = READERS.iter().filter(|r| r.container_ok()).count() as u64;
    10 * (WRITERS.len() as u64 * READERS.len() as u64 + (SHAPES.len() as u64 - 1) * cw * cr)
}
fn valid_fault_cells() -> u64 {
    2 * (1 + 2 + 4 + 8 + 16) * 3
}

fn history_digest(t: &Trace) -> u64 {
    let mut d = Digest::default();
    d.u64(t.input.rl as u64);
    d.u64(t.input.native_read_byte as u64);
    match &t.input.io {
        None => d.u64(0),
        Some(p) => {
            d.bytes(&p.chunks);
            d.u64(p.eintr_mask as u64 | 1 << 40);
        }
    }
    for r in &t.records {
        d.u64(r.w_lay as u64 | (r.r_lay as u64) << 16 | (r.shape as u64) << 32 | (r.writer as u64) << 40 | (r.reader as u64) << 48);
        for v in &r.vals {
            d.u64(*v as u64);
            d.u64((*v >> 64) as u64);
        }
        d.bytes(&r.splits);
    }
    for o in &t.serde {
        d.u64(o.lay as u64 | (o.wrapping as u64) << 16 | 1 << 20);
        d.u64(o.bits as u64);
        d.u64((o.bits >> 64) as u64);
    }
    d.finish()
}

// ------------------------------------------------------------------ known findings

#[derive(Clone, Debug)]
struct Known {
    check: String,
    /// every key present must equal the corresponding attribute of the violating record
    matcher: BTreeMap<String, String>,
    what: String,
}

fn load_known(path: &str) -> Result<Vec<Known>, String> {
    let txt = match std::fs::read_to_string(path) {
        Ok(t) => t,
        Err(_) => return Ok(Vec::new()),
    };
    let v: Value = serde_json::from_str(&txt).map_err(|e| format!("{}: {}", path, e))?;
    let mut out = Vec::new();
    for f in v.get("findings").and_then(|x| x.as_array()).cloned().unwrap_or_default() {
        if f.get("property").and_then(|x| x.as_str()) != Some(PROPERTY) {
            continue;
        }
        let mut m = BTreeMap::new();
        if let Some(o) = f.get("match").and_then(|x| x.as_object()) {
            for (k, val) in o {
                m.insert(k.clone(), val.as_str().map(|s| s.to_string()).unwrap_or_else(|| val.to_string()));
            }
        }
        if m.is_empty() {
            eprintln!("note: known_findings entry without a `match` block ignored (it would mask every violation of its check id): {}", f);
            continue;
        }
        out.push(Known {
            check: f.get("check").and_then(|x| x.as_str()).unwrap_or("").to_string(),
            matcher: m,
            what: f.get("what").and_then(|x| x.as_str()).unwrap_or("").to_string(),
        });
    }
    Ok(out)
}

fn violation_attrs(world: &World, t: &Trace, v: &Violation) -> BTreeMap<String, String> {
    let mut a = BTreeMap::new();
    a.insert("fault_kind".into(), FAULT_KINDS[v.fault.kind()].to_string());
    if v.check.starts_with('S') {
        if let Some(o) = t.serde.get(v.rec) {
            let l = &world.table[o.lay as usize];
            a.insert("layout".into(), l.name.to_string());
            a.insert("family".into(), l.struct_name.to_string());
            a.insert("wrapping".into(), o.wrapping.to_string());
        }
    } else if let Some(r) = t.records.get(v.rec) {
        let l = &world.table[r.w_lay as usize];
        a.insert("layout".into(), l.name.to_string());
        a.insert("family".into(), l.struct_name.to_string());
        a.insert("reader_layout".into(), world.table[r.r_lay as usize].name.to_string());
        a.insert("shape".into(), format!("{:?}", r.shape));
        a.insert("writer".into(), format!("{:?}", r.writer));
        a.insert("reader".into(), format!("{:?}", r.reader));
    }
    a
}

fn known_match<'k>(known: &'k [Known], world: &World, t: &Trace, v: &Violation) -> Option<&'k Known> {
    if known.is_empty() {
        return None;
    }
    let attrs = violation_attrs(world, t, v);
    known.iter().find(|k| k.check == v.check && k.matcher.iter().all(|(key, val)| attrs.get(key) == Some(val)))
}

// ------------------------------------------------------------------ one run

struct RunOut {
    digest: u64,
    violation: Option<(Trace, Fault, Violation)>,
}

fn one_run(world: &World, t: Trace, tier: Tier, known: &[Known], st: &mut Stats) -> RunOut {
    if let Err(m) = validate(&world.table, &t) {
        // generator bug: a harness error, never a property violation
        eprintln!("harness error: generated trace invalid (seed {} run {}): {}", t.seed, t.run, m);
        std::process::exit(2);
    }
    st.histories += 1;
    st.max_records = st.max_records.max(t.records.len());
    st.serde_ops += t.serde.len() as u64;
    if let Some(p) = &t.input.io {
        if p.chunks.iter().any(|c| *c < 16) {
            st.mode_hist[0] += 1;
        }
        if p.eintr_mask != 0 {
            st.mode_hist[1] += 1;
        }
    }
    match t.input.rl {
        seams::RlMode::None => st.mode_hist[2] += 1,
        seams::RlMode::Err => st.mode_hist[3] += 1,
        seams::RlMode::Over => st.mode_hist[5] += 1,
        _ => {}
    }
    if t.input.native_read_byte {
        st.mode_hist[4] += 1;
    }
    if t.input.nest.is_some() {
        st.nest_hist += 1;
    }
    let mut dg = Digest::default();
    let mut nontrivial: u32 = 0;
    let w = match write_phase(&world.table, &t, false) {
        Ok(w) => w,
        Err(v) => {
            if let Some(k) = known_match(known, world, &t, &v) {
                *st.known_hits.entry(k.what.clone()).or_insert(0) += 1;
                st.distinct.entry(history_digest(&t)).or_insert(0);
                return RunOut { digest: 0, violation: None };
            }
            return RunOut { digest: 0, violation: Some((t, Fault::None, v)) };
        }
    };
    dg.u64(w.digest);
    st.steps += w.steps;
    st.nest_fired_w += w.nest_fired as u64;
    for i in 0..24 {
        st.checks_ok[i] += w.ok[i] as u64;
    }
    st.records_written += t.records.len() as u64;
    st.max_stream = st.max_stream.max(w.medium.len());
    let mut sensitive = false;
    for r in &t.records {
        let o = &world.table[r.w_lay as usize];
        st.lay_written[r.w_lay as usize] += 1;
        st.lay_read[r.r_lay as usize] += 1;
        set_bit(&mut st.cell_fswr, (((o.fam as usize * 12 + r.shape as usize) * 14) + r.writer as usize) * 16 + r.reader as usize);
        sensitive |= r.vals.iter().any(|v| endian_sensitive(*v, o.w));
    }
    let plan = fault_plan(&t, w.medium.len(), tier);
    let mut first: Option<(Fault, Violation)> = None;
    for f in &plan {
        let p = read_pass(&world.table, &t, &w, f, false);
        st.executions += 1;
        dg.u64(p.digest);
        st.steps += p.stats.steps;
        st.records_read += p.stats.records_read as u64;
        st.short_reads += p.stats.short_reads as u64;
        st.eintrs += p.stats.eintrs as u64;
        st.rl_err_propagated += p.stats.rl_err_propagated as u64;
        st.nest_fired_r += p.stats.nest_fired as u64;
        for i in 0..24 {
            st.checks_ok[i] += p.ok[i] as u64;
        }
        st.fault_configured[f.kind()] += 1;
        if p.stats.fired {
            st.fault_fired[f.kind()] += 1;
            nontrivial += 1;
            // which byte of a bare record did it hit?
            let off = match f {
                Fault::TruncateAt(c) | Fault::IoErrorAt(c) => Some((*c, f.kind() - 1)),
                Fault::BitFlip(b) => Some((*b / 8, 2)),
                _ => None,
            };
            if let Some((c, k)) = off {
                for (i, (s, e)) in w.spans.iter().enumerate() {
                    if *s <= c && c < *e && t.records[i].shape == Shape::Bare {
                        let o = &world.table[t.records[i].w_lay as usize];
                        set_bit(&mut st.cell_fault, (o.fam as usize * 3 + k) * 16 + (c - s));
                    }
                }
            }
        } else if matches!(f, Fault::None) && sensitive {
            nontrivial += 1;
        }
        if let Some(v) = p.violation {
            if let Some(k) = known_match(known, world, &t, &v) {
                *st.known_hits.entry(k.what.clone()).or_insert(0) += 1;
                continue;
            }
            first = Some((f.clone(), v));
            break;
        }
    }
    st.distinct.entry(history_digest(&t)).or_insert(nontrivial);
    RunOut { digest: dg.finish(), violation: first.map(|(f, v)| (t, f, v)) }
}

// ------------------------------------------------------------------ batch

struct Batch {
    stats: Stats,
    violation: Option<(u64, Trace, Fault, Violation)>,
    digests: Vec<(u64, u64)>,
    completed: u64,
    capped: bool,
}

fn run_batch(world: &World, source: &(dyn Fn(u64) -> Trace + Sync), runs: u64, workers: usize, tier: Tier, known: &[Known], keep_digests: bool, cap_s: f64) -> Batch {
    // digest collection (determinism self-test) runs every index to the end, violation or not
    let stop_on_violation = !keep_digests;
    let first_bad = AtomicU64::new(u64::MAX);
    let capped = AtomicBool::new(false);
    let t0 = Instant::now();
    let nlay = world.table.len();
    let results: Vec<(Stats, Option<(u64, Trace, Fault, Violation)>, Vec<(u64, u64)>, u64)> = std::thread::scope(|sc| {
        let mut hs = Vec::new();
        for wk in 0..workers {
            let first_bad = &first_bad;
            let capped = &capped;
            hs.push(sc.spawn(move || {
                let mut st = Stats::new(nlay);
                let mut digs = Vec::new();
                let mut bad = None;
                let mut done = 0u64;
                let mut run = wk as u64;
                while run < runs {
                    if run > first_bad.load(Ordering::Relaxed) {
                        break;
                    }
                    if done % 64 == 0 && t0.elapsed().as_secs_f64() > cap_s {
                        capped.store(true, Ordering::Relaxed);
                        break;
                    }
                    let out = one_run(world, source(run), tier, known, &mut st);
                    done += 1;
                    if keep_digests {
                        digs.push((run, out.digest));
                    }
                    if let Some((t, f, v)) = out.violation {
                        if stop_on_violation {
                            first_bad.fetch_min(run, Ordering::Relaxed);
                            bad = Some((run, t, f, v));
                            break;
                        }
                    }
                    run += workers as u64;
                }
                (st, bad, digs, done)
            }));
        }
        hs.into_iter()
            .map(|h| match h.join() {
                Ok(r) => r,
                Err(p) => {
                    let m = p.downcast_ref::<String>().cloned().or_else(|| p.downcast_ref::<&str>().map(|s| s.to_string())).unwrap_or_default();
                    eprintln!("harness error: worker thread panicked: {}", m);
                    std::process::exit(2);
                }
            })
            .collect()
    });
    let mut stats = Stats::new(nlay);
    let mut violation: Option<(u64, Trace, Fault, Violation)> = None;
    let mut digests = Vec::new();
    let mut completed = 0;
    for (st, bad, digs, done) in results {
        stats.merge(st);
        completed += done;
        digests.extend(digs);
        if let Some(b) = bad {
            if violation.as_ref().map(|v| b.0 < v.0).unwrap_or(true) {
                violation = Some(b);
            }
        }
    }
    digests.sort();
    Batch { stats, violation, digests, completed, capped: capped.load(Ordering::Relaxed) }
}

// ------------------------------------------------------------------ replay files

fn events_json(evs: &[(u8, u64, u64)]) -> Value {
    Value::Array(evs.iter().take(400).map(|(k, a, b)| json!([seams::ev::name(*k), a, b])).collect())
}

fn replay_json(world: &World, t: &Trace, f: &Fault, v: &Violation, extra: Value) -> Value {
    let name = |i: u16| world.table.get(i as usize).map(|o| o.name.to_string()).unwrap_or_default();
    let (_, evs, _) = shrink::exec_single(world, t, f, true);
    json!({
        "property": PROPERTY,
        "check": v.check,
        "violation": {"check": v.check, "record": v.rec, "detail": v.detail},
        "fault": f.to_json(),
        "trace": t.to_json(&name),
        "events": events_json(&evs),
        "info": extra,
    })
}

fn do_replay(world: &World, path: &str) -> i32 {
    let txt = match std::fs::read_to_string(path) {
        Ok(t) => t,
        Err(e) => {
            eprintln!("harness error: cannot read {}: {}", path, e);
            return 2;
        }
    };
    let v: Value = match serde_json::from_str(&txt) {
        Ok(v) => v,
        Err(e) => {
            eprintln!("harness error: {}: {}", path, e);
            return 2;
        }
    };
    let t = match v.get("trace").ok_or("no trace".to_string()).and_then(Trace::from_json) {
        Ok(t) => t,
        Err(e) => {
            eprintln!("harness error: {}: {}", path, e);
            return 2;
        }
    };
    let f = match v.get("fault").ok_or("no fault".to_string()).and_then(Fault::from_json) {
        Ok(f) => f,
        Err(e) => {
            eprintln!("harness error: {}: {}", path, e);
            return 2;
        }
    };
    if let Err(m) = validate(&world.table, &t) {
        eprintln!("harness error: {}: invalid trace: {}", path, m);
        return 2;
    }
    if let Fault::ReaderWider(l) = &f {
        if *l as usize >= world.table.len() {
            eprintln!("harness error: {}: fault names layout {} of {}", path, l, world.table.len());
            return 2;
        }
    }
    let want = v.get("check").and_then(|x| x.as_str()).unwrap_or("");
    if v.pointer("/info/canary").and_then(|x| x.as_u64()).unwrap_or(0) > 0 {
        exec::CANARY.store(v.pointer("/info/canary").and_then(|x| x.as_u64()).unwrap_or(1) as u8, std::sync::atomic::Ordering::Relaxed);
    }
    if v.pointer("/info/source").and_then(|x| x.as_str()) == Some("ubprobe") {
        exec::LEAN.store(v.pointer("/info/lean_level").and_then(|x| x.as_u64()).unwrap_or(2) as u8, std::sync::atomic::Ordering::Relaxed);
    }
    if let Some(pf) = v.pointer("/info/prefix") {
        // the violation depends on what the same thread executed before (state the code under test keeps
        // between calls): the replay is the schedule prefix itself — the runs first..=last of the recorded
        // seed, every execution of each in plan order, on one thread
        let seed = v.pointer("/info/seed").and_then(|x| x.as_u64()).unwrap_or(0);
        let (a, r) = (pf.get("first_run").and_then(|x| x.as_u64()).unwrap_or(0), pf.get("last_run").and_then(|x| x.as_u64()).unwrap_or(0));
        let tier = if pf.get("tier").and_then(|x| x.as_str()) == Some("thorough") { Tier::Thorough } else { Tier::Quick };
        println!("replaying {}: runs {}..={} of seed {} in order on one thread", path, a, r, seed);
        let mut st = Stats::new(world.table.len());
        for run in a..=r {
            if let Some((_, _, g)) = one_run(world, generate(world, seed, run), tier, &[], &mut st).violation {
                println!("REPLAY-VIOLATION check={} record={} :: run {}: {}", g.check, g.rec, run, g.detail);
                if !want.is_empty() && want != g.check {
                    println!("note: the file recorded check {} but {} fails now", want, g.check);
                }
                println!("VIOLATION property={} replay={}", PROPERTY, path);
                return 1;
            }
        }
        println!("REPLAY-OK: the recorded prefix no longer violates {}", PROPERTY);
        return 0;
    }
    if v.pointer("/info/concurrent").and_then(|x| x.as_bool()) == Some(true) {
        println!("replaying {} with two threads executing the history at the same time", path);
        return match exec_concurrently(world, &t, &f) {
            Some(g) => {
                println!("REPLAY-VIOLATION check={} record={} :: {}", g.check, g.rec, g.detail);
                println!("VIOLATION property={} replay={}", PROPERTY, path);
                1
            }
            None => {
                println!("REPLAY-OK: the recorded history no longer violates {}", PROPERTY);
                0
            }
        };
    }
    let (got, evs, _) = shrink::exec_single(world, &t, &f, true);
    println!("replaying {} ({} records, {} serde ops, fault {:?})", path, t.records.len(), t.serde.len(), f);
    for (k, a, b) in evs.iter().take(200) {
        println!("  {:<24} {:>6} {:#x}", seams::ev::name(*k), a, b);
    }
    match got {
        Some(g) => {
            println!("REPLAY-VIOLATION check={} record={} :: {}", g.check, g.rec, g.detail);
            if !want.is_empty() && want != g.check {
                println!("note: the file recorded check {} but {} fails now", want, g.check);
            }
            println!("VIOLATION property={} replay={}", PROPERTY, path);
            1
        }
        None => {
            println!("REPLAY-OK: the recorded history no longer violates {}", PROPERTY);
            0
        }
    }
}

// ------------------------------------------------------------------ main

struct Args {
    cmd: String,
    tier: Tier,
    seed: u64,
    runs: Option<u64>,
    workers: usize,
    evidence: Option<String>,
    replay_dir: String,
    known: String,
    file: Option<String>,
    run_index: u64,
    cap_s: f64,
    out: Option<String>,
    seam_audit: Option<String>,
    variant: String,
    codec_only: bool,
    /// other build configurations to run the same check under: (binary, variant name, histories)
    also: Vec<(String, String, u64)>,
    /// workspace directory in which to run the interpreter probe (`cargo +nightly miri run ... -- ubprobe`)
    miri_workspace: Option<String>,
    /// same, but only used when a native violation fails to replay (quick tier)
    miri_on_demand: Option<String>,
    /// alarm-path self-test child: run with a deliberately wrong reference model (1: write phase, 2: read phase)
    canary: u8,
    /// this process is the single-worker re-search spawned after a violation that did not replay: only
    /// the seeded batch, from a fresh process state, on one thread
    research: bool,
    /// ubprobe: 2 = codec calls only, 1 = also byte views and size checks (cross-target runs)
    lean_level: u8,
}

fn parse_args() -> Args {
    let mut a = Args {
        cmd: String::new(),
        tier: match std::env::var("VERIF_TIER").as_deref() {
            Ok("thorough") => Tier::Thorough,
            _ => Tier::Quick,
        },
        seed: match std::env::var("VERIF_SEED") {
            Ok(s) if !s.trim().is_empty() => s.trim().parse::<u64>().unwrap_or_else(|_| {
                eprintln!("usage error: VERIF_SEED={:?} is not an unsigned integer", s);
                std::process::exit(2)
            }),
            _ => DEFAULT_SEED,
        },
        runs: std::env::var("VERIF_RUNS").ok().and_then(|s| s.parse().ok()),
        workers: std::env::var("VERIF_WORKERS").ok().and_then(|s| s.parse().ok()).unwrap_or_else(|| std::thread::available_parallelism().map(|n| n.get()).unwrap_or(4).min(16)),
        evidence: None,
        replay_dir: "/verif/replays/C10".into(),
        known: "/verif/known_findings.json".into(),
        file: None,
        run_index: 0,
        cap_s: std::env::var("VERIF_CAP_S").ok().and_then(|s| s.parse().ok()).unwrap_or(0.0),
        out: None,
        seam_audit: None,
        variant: "main".into(),
        codec_only: false,
        also: Vec::new(),
        miri_workspace: None,
        miri_on_demand: None,
        canary: 0,
        research: false,
        lean_level: 2,
    };
    let mut it = std::env::args().skip(1);
    a.cmd = it.next().unwrap_or_default();
    while let Some(x) = it.next() {
        let mut val = || it.next().unwrap_or_else(|| {
            eprintln!("usage error: {} needs a value", x);
            std::process::exit(2)
        });
        match x.as_str() {
            "--tier" => {
                a.tier = match val().as_str() {
                    "quick" => Tier::Quick,
                    "thorough" => Tier::Thorough,
                    o => {
                        eprintln!("usage error: unknown tier {}", o);
                        std::process::exit(2)
                    }
                }
            }
            "--seed" => {
                let v = val();
                a.seed = v.trim().parse().unwrap_or_else(|_| {
                    eprintln!("usage error: --seed {:?} is not an unsigned integer", v);
                    std::process::exit(2)
                })
            }
            "--runs" => a.runs = val().parse().ok(),
            "--workers" => a.workers = val().parse().unwrap_or(1),
            "--evidence" => a.evidence = Some(val()),
            "--replay-dir" => a.replay_dir = val(),
            "--known" => a.known = val(),
            "--run" => a.run_index = val().parse().unwrap_or(0),
            "--cap-s" => a.cap_s = val().parse().unwrap_or(0.0),
            "--out" => a.out = Some(val()),
            "--seam-audit" => a.seam_audit = Some(val()),
            "--variant" => a.variant = val(),
            "--miri-probe" => a.miri_workspace = Some(val()),
            "--miri-on-demand" => a.miri_on_demand = Some(val()),
            "--canary" => a.canary = val().parse().unwrap_or(1),
            "--research" => a.research = true,
            "--lean-level" => a.lean_level = val().parse().unwrap_or(2),
            "--codec-only" => a.codec_only = true,
            "--also" => {
                let v = val();
                let p: Vec<&str> = v.splitn(3, ':').collect();
                if p.len() != 3 {
                    eprintln!("usage error: --also <binary>:<variant>:<histories>");
                    std::process::exit(2);
                }
                a.also.push((p[0].to_string(), p[1].to_string(), p[2].parse().unwrap_or(10_000)));
            }
            other if !other.starts_with("--") && a.file.is_none() => a.file = Some(other.to_string()),
            other => {
                eprintln!("usage error: unknown argument {}", other);
                std::process::exit(2)
            }
        }
    }
    a.workers = a.workers.max(1);
    a
}

fn digests_of(world: &World, seed: u64, runs: u64, workers: usize, tier: Tier) -> Vec<(u64, u64)> {
    run_batch(world, &|r| generate(world, seed, r), runs, workers, tier, &[], true, 1e9).digests
}

fn spawn_digests(bin: &str, seed: u64, runs: u64, workers: usize, codec_only: bool) -> Result<Vec<(u64, u64)>, String> {
    let mut args: Vec<String> = ["digests", "--seed", &seed.to_string(), "--runs", &runs.to_string(), "--workers", &workers.to_string(), "--tier", "quick"].iter().map(|s| s.to_string()).collect();
    if codec_only {
        args.push("--codec-only".into());
    }
    let out = std::process::Command::new(bin)
        .args(&args)
        .output()
        .map_err(|e| format!("cannot run {}: {}", bin, e))?;
    if !out.status.success() {
        return Err(format!("{} digests exited with {:?}: {}", bin, out.status.code(), String::from_utf8_lossy(&out.stderr)));
    }
    let mut v = Vec::new();
    for l in String::from_utf8_lossy(&out.stdout).lines() {
        let mut p = l.split_whitespace();
        if let (Some(a), Some(b)) = (p.next(), p.next()) {
            if let (Ok(a), Ok(b)) = (a.parse::<u64>(), u64::from_str_radix(b, 16)) {
                v.push((a, b));
            }
        }
    }
    Ok(v)
}

fn main() {
    std::panic::set_hook(Box::new(|info| {
        if std::env::var_os("C10SIM_LOUD").is_some() {
            eprintln!("{}", info);
        }
    }));
    let args = parse_args();
    let world = World::new(table::table());
    // the table instantiates the aliases by name; if an alias no longer has the fractional-bit count its
    // name says, that is not C10's business (the encoding does not depend on it) — note it and go on
    for o in &world.table {
        if (o.frac_reported)() != o.frac && args.cmd == "run" && args.variant == "main" {
            eprintln!("note: alias {} reports {} fractional bits, its name says {} (not judged by C10)", o.name, (o.frac_reported)(), o.frac);
        }
    }
    match args.cmd.as_str() {
        "run" => std::process::exit(cmd_run(&world, &args)),
        "replay" => {
            let f = args.file.clone().unwrap_or_else(|| {
                eprintln!("usage: c10sim replay <file>");
                std::process::exit(2)
            });
            std::process::exit(do_replay(&world, &f))
        }
        "gen" => {
            let t = generate(&world, args.seed, args.run_index);
            let name = |i: u16| world.table[i as usize].name.to_string();
            println!("{}", serde_json::to_string_pretty(&t.to_json(&name)).unwrap());
        }
        "ubprobe" => std::process::exit(cmd_ubprobe(&world, &args)),
        "probe" => {
            // the native run died (crash or abort inside the code under test): no native verdict is
            // possible; hand the PRNG-free probe batch to the interpreter, which turns memory errors into
            // reported events. Exit 1 if it reports one, else 2 (no verdict) — never 0.
            let ws = match args.miri_workspace.clone().or(args.miri_on_demand.clone()) {
                Some(w) => w,
                None => {
                    eprintln!("usage error: probe needs --miri-probe <workspace>");
                    std::process::exit(2);
                }
            };
            let (res, hit) = miri_probe(&args, &ws, "miri", None, "2");
            if let Some(path) = &args.evidence {
                let ev = json!({"property_id": PROPERTY, "tier": "probe-only", "seed": args.seed, "level": "fault_enumeration", "violations": hit as u32,
                    "coverage": {"evaluations": 0, "distinct_nontrivial": 0, "rule": "the native run died before it could report; only the interpreter probe ran", "samples": [], "exhaustive": false, "interpreter_probe_undefined_behaviour": [res]}});
                let _ = std::fs::write(path, serde_json::to_string_pretty(&ev).unwrap());
            }
            if hit {
                std::process::exit(1);
            }
            eprintln!("harness error: the native run died and the interpreter probe did not pin down why; no verdict");
            std::process::exit(2);
        }
        "digests" => {
            exec::CODEC_ONLY.store(args.codec_only, std::sync::atomic::Ordering::Relaxed);
            for (r, d) in digests_of(&world, args.seed, args.runs.unwrap_or(1000), args.workers, args.tier) {
                println!("{} {:016x}", r, d);
            }
        }
        _ => {
            eprintln!("usage: c10sim run|replay|gen|digests [--tier quick|thorough] [--seed N] [--runs N] [--workers N] ...");
            std::process::exit(2);
        }
    }
}

/// Small PRNG-free batch meant to be executed by an interpreter that detects undefined behaviour
/// (`cargo +nightly miri run ... -- ubprobe`). The history about to run is written to
/// `<replay-dir>/ubprobe-current.json` first, so that if the interpreter aborts the process the file
/// names the (history, fault) pair it was executing. Works natively too (then it is just a tiny check).
fn cmd_ubprobe(world: &World, args: &Args) -> i32 {
    exec::LEAN.store(args.lean_level, std::sync::atomic::Ordering::Relaxed);
    let traces = gen::ub_probe_traces(world);
    let _ = std::fs::create_dir_all(&args.replay_dir);
    let cur = format!("{}/ubprobe-current.json", args.replay_dir);
    let name = |i: u16| world.table[i as usize].name.to_string();
    let (mut execs, mut fired) = (0u64, 0u64);
    for t in &traces {
        if let Err(m) = validate(&world.table, t) {
            eprintln!("harness error: ubprobe trace invalid: {}", m);
            return 2;
        }
        let w = match write_phase(&world.table, t, false) {
            Ok(w) => w,
            Err(v) => {
                let doc = replay_json(world, t, &Fault::None, &v, json!({"variant": args.variant, "source": "ubprobe", "lean_level": args.lean_level}));
                let p = format!("{}/ubprobe-{}-{}-{}.json", args.replay_dir, t.run, v.check, args.variant);
                let _ = std::fs::write(&p, serde_json::to_string_pretty(&doc).unwrap());
                println!("violation in ubprobe history {}: check {} :: {}", t.run, v.check, v.detail);
                println!("VIOLATION property={} replay={}", PROPERTY, p);
                return 1;
            }
        };
        let n = w.medium.len();
        // fault plan: fault-free; every truncation inside the first record and around every record
        // boundary; one I/O error; three bit flips; trailing bytes
        let mut cuts: Vec<usize> = (0..w.spans[0].1).collect();
        for (s0, e0) in &w.spans {
            cuts.extend([*s0, s0 + 1, e0 - 1].iter().copied().filter(|c| *c < n));
        }
        cuts.sort();
        cuts.dedup();
        let mut plan = vec![Fault::None];
        plan.extend(cuts.into_iter().map(Fault::TruncateAt));
        plan.push(Fault::IoErrorAt(n / 2));
        plan.extend([7usize, 8 * (n / 2) + 3, 8 * n - 1].iter().map(|b| Fault::BitFlip(*b)));
        plan.push(Fault::Trailing(vec![0xAB, 0xCD]));
        // the history is persisted once; the fault about to run is announced on stdout (formatting a
        // JSON document per execution costs an interpreter seconds)
        let doc = json!({"property": PROPERTY, "check": "UB", "fault": {"kind": "none"}, "trace": t.to_json(&name),
            "info": {"variant": args.variant, "source": "ubprobe", "lean_level": args.lean_level, "note": "written before execution; if the interpreter aborted, the last `ubprobe-next` line on stdout names the fault it was executing on this history"}});
        let _ = std::fs::write(&cur, serde_json::to_string(&doc).unwrap());
        for f in &plan {
            println!("ubprobe-next history={} fault={}", t.run, serde_json::to_string(&f.to_json()).unwrap());
            let p = read_pass(&world.table, t, &w, f, false);
            execs += 1;
            fired += p.stats.fired as u64;
            if let Some(v) = p.violation {
                let doc = replay_json(world, t, f, &v, json!({"variant": args.variant, "source": "ubprobe", "lean_level": args.lean_level}));
                let path = format!("{}/ubprobe-{}-{}-{}.json", args.replay_dir, t.run, v.check, args.variant);
                let _ = std::fs::write(&path, serde_json::to_string_pretty(&doc).unwrap());
                println!("violation in ubprobe history {}: check {} record {} :: {}", t.run, v.check, v.rec, v.detail);
                println!("VIOLATION property={} replay={}", PROPERTY, path);
                return 1;
            }
        }
    }
    // concurrent phase: the first history of every family executed by two threads at the same time.
    // The library owns no shared state, so this can only matter if a change introduces some (a static
    // scratch buffer, a cache): the interpreter's data-race detector then reports it, and natively the two
    // threads' oracles see each other's bytes.
    let mut concurrent = 0u64;
    for t in traces.iter().filter(|t| t.run % 4 == 0) {
        let doc = json!({"property": PROPERTY, "check": "UB", "fault": {"kind": "none"}, "trace": t.to_json(&name),
            "info": {"variant": args.variant, "source": "ubprobe", "concurrent": true, "lean_level": args.lean_level, "note": "two threads execute this history at the same time"}});
        let _ = std::fs::write(&cur, serde_json::to_string(&doc).unwrap());
        println!("ubprobe-next history={} fault={{\"kind\":\"none\"}}", t.run);
        let found = exec_concurrently(world, t, &Fault::None);
        concurrent += 2;
        if let Some(v) = found {
            let doc = replay_json(world, t, &Fault::None, &v, json!({"variant": args.variant, "source": "ubprobe", "concurrent": true, "lean_level": args.lean_level}));
            let path = format!("{}/ubprobe-{}-{}-{}-concurrent.json", args.replay_dir, t.run, v.check, args.variant);
            let _ = std::fs::write(&path, serde_json::to_string_pretty(&doc).unwrap());
            println!("violation in ubprobe history {} (two threads): check {} record {} :: {}", t.run, v.check, v.rec, v.detail);
            println!("VIOLATION property={} replay={}", PROPERTY, path);
            return 1;
        }
    }
    let _ = std::fs::remove_file(&cur);
    println!("UBPROBE-OK histories={} executions={} faults_fired={} concurrent_executions={}", traces.len(), execs, fired, concurrent);
    0
}

/// Two threads execute the same (history, fault) pair at the same time; first violation wins.
fn exec_concurrently(world: &World, t: &Trace, f: &Fault) -> Option<Violation> {
    std::thread::scope(|sc| {
        let hs: Vec<_> = (0..2).map(|_| sc.spawn(|| shrink::exec_single(world, t, f, false).0)).collect();
        let mut found = None;
        for h in hs {
            if let Ok(Some(v)) = h.join() {
                found.get_or_insert(v);
            }
        }
        found
    })
}

/// One run of the `ubprobe` batch under Miri. Returns (evidence entry, violation reported).
fn miri_probe(args: &Args, ws: &str, label: &str, target: Option<&str>, lean: &str) -> (Value, bool) {
    let t1 = Instant::now();
    let mut cargs: Vec<String> = ["+nightly", "miri", "run", "--offline", "-p", "c10sim", "--target-dir", "target-miri"].iter().map(|s| s.to_string()).collect();
    if let Some(t) = target {
        cargs.push("--target".into());
        cargs.push(t.into());
    }
    cargs.extend(["--", "ubprobe", "--replay-dir", &args.replay_dir, "--variant", label, "--known", &args.known, "--lean-level", lean].iter().map(|s| s.to_string()));
    let out = std::process::Command::new("cargo").current_dir(ws).env("MIRIFLAGS", "-Zmiri-disable-isolation").args(&cargs).output();
    let tgt = target.unwrap_or("host");
    match out {
        Err(e) => (json!({"variant": label, "target": tgt, "ran": false, "why": format!("cargo +nightly miri could not be started: {}", e)}), false),
        Ok(o) => {
            let so = String::from_utf8_lossy(&o.stdout).to_string();
            let se = String::from_utf8_lossy(&o.stderr).to_string();
            let okline = so.lines().find(|l| l.starts_with("UBPROBE-OK")).map(|l| l.to_string());
            let last_next = so.lines().filter(|l| l.starts_with("ubprobe-next")).last().map(|l| l.to_string());
            if let (true, Some(l)) = (o.status.success(), &okline) {
                println!("c10sim: interpreter probe under Miri ({}, target {}): {}", label, tgt, l);
                (json!({"variant": label, "target": tgt, "ran": true, "interpreter": "miri (cargo +nightly miri run, -Zmiri-disable-isolation)", "lean_level": lean, "result": l, "undefined_behaviour_reports": 0, "wall_s": t1.elapsed().as_secs_f64()}), false)
            } else if let Some(l) = so.lines().find(|l| l.starts_with("VIOLATION")) {
                for x in so.lines().filter(|l| l.starts_with("violation in")) {
                    println!("[variant {}] {}", label, x);
                }
                println!("{}", l);
                (json!({"variant": label, "target": tgt, "ran": true, "result": "functional violation inside the probe", "line": l}), true)
            } else if se.contains("Undefined Behavior") {
                // build the replay file from the persisted history and the last announced fault
                let cur = format!("{}/ubprobe-current.json", args.replay_dir);
                let mut doc: Value = std::fs::read_to_string(&cur).ok().and_then(|t| serde_json::from_str(&t).ok()).unwrap_or(json!({}));
                if let Some(f) = last_next.as_ref().and_then(|l| l.split("fault=").nth(1)).and_then(|f| serde_json::from_str::<Value>(f).ok()) {
                    doc["fault"] = f;
                }
                let report: String = se.lines().skip_while(|l| !l.contains("Undefined Behavior")).take(12).collect::<Vec<_>>().join(" | ");
                doc["check"] = json!("U1");
                doc["violation"] = json!({"check": "U1", "detail": report});
                let path = format!("{}/{}-ubprobe-U1-{}.json", args.replay_dir, args.seed, label);
                let _ = std::fs::write(&path, serde_json::to_string_pretty(&doc).unwrap());
                println!("[variant {}] violation: check U1 (undefined behaviour while executing {}) :: {}", label, last_next.unwrap_or_default(), report);
                println!("VIOLATION property={} replay={}", PROPERTY, path);
                (json!({"variant": label, "target": tgt, "ran": true, "result": "undefined behaviour reported", "report": report, "replay": path}), true)
            } else {
                // miri missing / unsupported operation / build failure: not a verdict about the property
                let why: String = se.lines().rev().take(6).collect::<Vec<_>>().join(" | ");
                eprintln!("note: interpreter probe {} skipped (exit {:?}): {}", label, o.status.code(), why);
                (json!({"variant": label, "target": tgt, "ran": false, "why": format!("cargo miri exited with {:?}: {}", o.status.code(), why)}), false)
            }
        }
    }
}

/// Alarm-path self-test: two child processes run a small batch against a deliberately wrong reference
/// model — one wrong in the write phase (big-endian payload, expected class E1), one wrong in the read
/// phase (every bare value expected with its lowest bit flipped, expected class D1). Each must exit 1,
/// print a VIOLATION line, and leave a minimised replay file of the expected class that reproduces.
fn alarm_path_selftest(args: &Args) -> Result<Value, String> {
    let me = std::env::current_exe().map_err(|e| e.to_string())?;
    let mut all = Vec::new();
    // the read-phase plant surfaces as D1 (a value read back) or, in a history whose fault-free pass asserts
    // nothing about the bare records (reader Skip, or a decode that only propagated a remaining_len error),
    // as D6 (the value read back by the recovery step): both are the planted error
    for (level, want, also) in [(1u8, "E1", "E1"), (2u8, "D1", "D6")] {
        let dir = format!("{}/selftest-{}-{}", args.replay_dir, std::process::id(), level);
        let evp = format!("{}/evidence.json", dir);
        std::fs::create_dir_all(&dir).map_err(|e| e.to_string())?;
        let out = std::process::Command::new(&me)
            .args(["run", "--tier", "quick", "--seed", &args.seed.to_string(), "--runs", "300", "--workers", "4", "--variant", "canary", "--canary", &level.to_string(), "--evidence", &evp, "--replay-dir", &dir, "--known", "/nonexistent"])
            .output()
            .map_err(|e| e.to_string())?;
        let so = String::from_utf8_lossy(&out.stdout).to_string();
        let line = so.lines().find(|l| l.starts_with("VIOLATION property=")).map(|l| l.to_string());
        let path = line.as_ref().and_then(|l| l.rsplit("replay=").next()).unwrap_or("").to_string();
        let doc: Value = std::fs::read_to_string(&path).ok().and_then(|t| serde_json::from_str(&t).ok()).unwrap_or(Value::Null);
        // replay it once more ourselves, in yet another process
        let again = std::process::Command::new(&me).args(["replay", &path]).output().map_err(|e| e.to_string())?;
        let got_id = doc.get("check").and_then(|c| c.as_str()).unwrap_or("").to_string();
        let class_ok = got_id == want || got_id == also;
        let again_ok = again.status.code() == Some(1) && String::from_utf8_lossy(&again.stdout).contains(&format!("REPLAY-VIOLATION check={}", got_id));
        let res = json!({
            "planted": if level == 1 { "write phase: big-endian reference model" } else { "read phase: model expects every bare value with its lowest bit flipped" },
            "histories": 300, "child_exit": out.status.code(), "violation_line": line.is_some(), "expected_check_id": if want == also { json!(want) } else { json!([want, also]) },
            "check_id": doc.get("check"), "records_after_minimisation": doc.pointer("/trace/records").and_then(|r| r.as_array()).map(|a| a.len()),
            "records_before_minimisation": doc.pointer("/info/minimised/records_before"),
            "replayed_in_a_fresh_process": again_ok,
        });
        let _ = std::fs::remove_dir_all(&dir);
        if out.status.code() != Some(1) || line.is_none() || !class_ok || !again_ok {
            return Err(format!("alarm-path self-test failed: {}", res));
        }
        all.push(res);
    }
    Ok(Value::Array(all))
}

fn cmd_run(world: &World, args: &Args) -> i32 {
    let t0 = Instant::now();
    exec::CANARY.store(args.canary, std::sync::atomic::Ordering::Relaxed);
    let mut alarm_selftest = json!(null);
    let known = match load_known(&args.known) {
        Ok(k) => k,
        Err(e) => {
            eprintln!("harness error: {}", e);
            return 2;
        }
    };
    let (tier_name, default_runs, default_cap) = match args.tier {
        Tier::Quick => ("quick", 200_000u64, 600.0),
        Tier::Thorough => ("thorough", 2_000_000u64, 2400.0),
    };
    let runs = args.runs.unwrap_or(default_runs);
    let cap = if args.cap_s > 0.0 { args.cap_s } else { default_cap };
    println!("c10sim[{}]: property {} tier {} VERIF_SEED {} histories {} workers {} layouts {} (substrate-fixed serde feature {})", args.variant, PROPERTY, tier_name, args.seed, runs, args.workers, world.table.len(), if simcore::serde_tok::SERDE_ON { "on" } else { "off" });

    // determinism self-test (in process): same seeds, 1 worker vs many, digests must agree
    let det_n = match args.tier {
        Tier::Quick => 2_000.min(runs),
        Tier::Thorough => 5_000.min(runs),
    };
    let det_n = if args.research { 0 } else { det_n };
    let d1 = digests_of(world, args.seed, det_n, 1, Tier::Quick);
    let dn = digests_of(world, args.seed, det_n, args.workers.max(2), Tier::Quick);
    let mut det_mismatch = d1.iter().zip(dn.iter()).filter(|(a, b)| a != b).count() + (d1.len() as i64 - dn.len() as i64).unsigned_abs() as usize;
    let mut det_compared = d1.len();
    let mut fresh_process = json!(null);
    if args.tier == Tier::Thorough && !args.research {
        if let Ok(me) = std::env::current_exe() {
            match spawn_digests(me.to_str().unwrap_or(""), args.seed, det_n, 3, false) {
                Ok(d) => {
                    let mm = d1.iter().zip(d.iter()).filter(|(a, b)| a != b).count() + (d1.len() as i64 - d.len() as i64).unsigned_abs() as usize;
                    det_mismatch += mm;
                    det_compared += d.len();
                    fresh_process = json!({"digests_compared": d.len(), "mismatches": mm, "workers": 3});
                }
                Err(e) => {
                    eprintln!("harness error: {}", e);
                    return 2;
                }
            }
        }
    }
    // a mismatch is acted upon only after the search below: if the tree violates the property, the
    // violation (found, minimised and reproduced in a fresh process) is the more useful answer

    let seed = args.seed;
    let mut batch = run_batch(world, &|r| generate(world, seed, r), runs, args.workers, args.tier, &known, false, cap);
    // exhaustive value sweep of the narrow families (deterministic, PRNG-free): quick = all 8-bit
    // layouts x 256 patterns, thorough = also all 16-bit layouts x 65536 patterns
    let space = gen::sweep_space(world, args.tier == Tier::Thorough);
    let mut offsets = Vec::new();
    let mut total = 0u64;
    for (l, n) in &space {
        offsets.push((total, *l, *n));
        total += *n as u64;
    }
    let mut sweep = json!(null);
    if batch.violation.is_none() && !args.research {
        let src = |idx: u64| -> Trace {
            let k = match offsets.binary_search_by(|(o, _, _)| o.cmp(&idx)) {
                Ok(k) => k,
                Err(k) => k - 1,
            };
            let (o, l, _) = offsets[k];
            gen::sweep_trace(world, l, (idx - o) as u32, idx)
        };
        let sb = run_batch(world, &src, total, args.workers, args.tier, &known, false, cap);
        sweep = json!({
            "layouts": space.len(), "widths": if args.tier == Tier::Thorough { json!([8, 16]) } else { json!([8]) },
            "bit_patterns_per_layout": "all 2^width", "histories": sb.stats.histories, "executions": sb.stats.executions,
            "complete": sb.completed == total && !sb.capped && sb.violation.is_none(),
            "what": "every bit pattern of every listed layout: encode_to -> model bytes and integer-twin bytes, decode -> same bits, every strict prefix fails, byte-view algebra (exhaustive per layout); plus a second record whose writer, reader and reader layout rotate with the value and the layout's rank, so that every single writer and reader (not every pair) meets every bit pattern of the width in some layout",
        });
        let v = sb.violation;
        batch.stats.merge(sb.stats);
        batch.completed += sb.completed;
        batch.capped |= sb.capped;
        batch.violation = v;
    }
    // thorough tier: exhaustive 32-bit sweep of the canonical encode_to / decode pair (lean loop), all 66
    // 32-bit layouts x 2^32 patterns, split into 4096 chunks per layout over the workers
    let mut sweep32 = json!(null);
    if args.tier == Tier::Thorough && batch.violation.is_none() && args.canary == 0 && !args.research {
        let t1 = Instant::now();
        let lays: Vec<u16> = world.table.iter().enumerate().filter(|(_, o)| o.w == 32).map(|(i, _)| i as u16).collect();
        let chunks_per = 4096u64;
        let total_chunks = lays.len() as u64 * chunks_per;
        let next = AtomicU64::new(0);
        let bad = std::sync::Mutex::new(None::<(u16, u32)>);
        let stop = AtomicBool::new(false);
        // the lean sweeps are time-boxed (far above their normal duration): a tree on which every call is
        // orders of magnitude slower must not turn the check into an hours-long run. A sweep that hits its
        // box is reported as incomplete in the evidence and on stderr; the verdict is on what was explored.
        let sweep32_cap = 3600.0;
        let capped32 = AtomicBool::new(false);
        std::thread::scope(|sc| {
            for _ in 0..args.workers {
                sc.spawn(|| loop {
                    if t1.elapsed().as_secs_f64() > sweep32_cap {
                        capped32.store(true, Ordering::Relaxed);
                        break;
                    }
                    let c = next.fetch_add(1, Ordering::Relaxed);
                    if c >= total_chunks || stop.load(Ordering::Relaxed) {
                        break;
                    }
                    let l = lays[(c / chunks_per) as usize];
                    let k = (c % chunks_per) as u32;
                    let (lo, hi) = (k << 20, (k << 20) | 0xF_FFFF);
                    let r = std::panic::catch_unwind(|| (world.table[l as usize].sweep32)(lo, hi));
                    let hit = match r {
                        Ok(None) => None,
                        Ok(Some(v)) => Some(v),
                        Err(_) => {
                            // unwound somewhere in this chunk: walk it pattern by pattern to pin the offender
                            let mut found = None;
                            for v in lo..=hi {
                                match std::panic::catch_unwind(|| (world.table[l as usize].sweep32)(v, v)) {
                                    Ok(None) => {}
                                    _ => {
                                        found = Some(v);
                                        break;
                                    }
                                }
                            }
                            found.or(Some(lo))
                        }
                    };
                    if let Some(v) = hit {
                        let mut g = bad.lock().unwrap();
                        if g.map(|(bl, bv)| (l, v) < (bl, bv)).unwrap_or(true) {
                            *g = Some((l, v));
                        }
                        stop.store(true, Ordering::Relaxed);
                    }
                });
            }
        });
        let done = next.load(Ordering::Relaxed).min(total_chunks);
        let hit = *bad.lock().unwrap();
        sweep32 = json!({"layouts": lays.len(), "bit_patterns_per_layout": "all 2^32", "patterns_checked": done * (1u64 << 20),
            "complete": hit.is_none() && done == total_chunks && !capped32.load(Ordering::Relaxed), "time_box_hit": capped32.load(Ordering::Relaxed), "wall_s": t1.elapsed().as_secs_f64(),
            "what": "lean loop, no event log: encode_to writes exactly the 4 LE bytes; decode of them returns the bits and consumes all 4; all byte views (inherent and Fixed-trait) equal the model bytes and invert, Wrapping bits; for one pattern in 256 the 3-byte prefix fails"});
        if let Some((l, v)) = hit {
            // re-execute as an ordinary history so that the normal oracles, minimiser and replay apply
            let t = Trace { seed: 0, run: v as u64, input: seams::InputMode::plain(), sampled_faults: vec![], serde: vec![],
                records: vec![trace::Record { w_lay: l, r_lay: l, shape: Shape::Bare, vals: vec![v as u128], splits: vec![], writer: trace::Writer::EncodeTo, reader: trace::Reader::Decode }] };
            let mut found = None;
            for f in [Fault::None, Fault::TruncateAt(3), Fault::TruncateAt(0)] {
                if let (Some(vi), _, _) = shrink::exec_single(world, &t, &f, false) {
                    found = Some((f, vi));
                    break;
                }
            }
            match found {
                Some((f, vi)) => batch.violation = Some((v as u64, t, f, vi)),
                None => {
                    eprintln!("harness error: the 32-bit sweep flagged pattern {:#x} of {} but the ordinary oracles accept it", v, world.table[l as usize].name);
                    return 2;
                }
            }
        }
    }
    // both tiers: structured sweep of the 64- and 128-bit layouts (lean loop): every pattern of the
    // PRNG-free sub-spaces of gen::structured_pattern through the canonical pair and the byte views
    let mut sweep_wide = json!(null);
    if batch.violation.is_none() && args.canary == 0 && args.variant == "main" && !args.research {
        let t1 = Instant::now();
        let lays: Vec<u16> = world.table.iter().enumerate().filter(|(_, o)| o.w >= 64).map(|(i, _)| i as u16).collect();
        const CH: u64 = 1 << 17;
        // (layout, first index, last index + 1)
        let mut work: Vec<(u16, u64, u64)> = Vec::new();
        for l in &lays {
            let tot = gen::structured_total(world.table[*l as usize].w);
            let mut at = 0;
            while at < tot {
                work.push((*l, at, (at + CH).min(tot)));
                at += CH;
            }
        }
        let quick_tier = args.tier == Tier::Quick;
        let wide_cap = if quick_tier { 120.0 } else { 900.0 };
        let capped_wide = AtomicBool::new(false);
        let next = AtomicU64::new(0);
        let done_patterns = AtomicU64::new(0);
        let done_chunks = AtomicU64::new(0);
        let bad = std::sync::Mutex::new(None::<(usize, u16, u128)>);
        let stop = AtomicBool::new(false);
        std::thread::scope(|sc| {
            for _ in 0..args.workers {
                sc.spawn(|| loop {
                    if t1.elapsed().as_secs_f64() > wide_cap {
                        capped_wide.store(true, Ordering::Relaxed);
                        break;
                    }
                    let c = next.fetch_add(1, Ordering::Relaxed) as usize;
                    if c >= work.len() || stop.load(Ordering::Relaxed) {
                        break;
                    }
                    let (l, lo, hi) = work[c];
                    let o = &world.table[l as usize];
                    let mut hit = None;
                    let mut n_exec = 0u64;
                    let a_end = gen::structured_total(o.w) - if o.w == 128 { 48u64.pow(4) } else { 32u64.pow(4) };
                    for idx in lo..hi {
                        if quick_tier && idx < a_end && idx % 3 != 2 {
                            continue; // quick tier: sub-space A with the all-distinct background only
                        }
                        n_exec += 1;
                        let v = gen::structured_pattern(o.w, idx);
                        let ok = std::panic::catch_unwind(|| (o.lean)(v, idx % 64 == 21)).unwrap_or(false);
                        if !ok {
                            hit = Some(v);
                            break;
                        }
                    }
                    done_patterns.fetch_add(n_exec, Ordering::Relaxed);
                    done_chunks.fetch_add(1, Ordering::Relaxed);
                    if let Some(v) = hit {
                        let mut g = bad.lock().unwrap();
                        if g.map(|(bc, _, _)| c < bc).unwrap_or(true) {
                            *g = Some((c, l, v));
                        }
                        stop.store(true, Ordering::Relaxed);
                    }
                });
            }
        });
        let hit = *bad.lock().unwrap();
        if capped_wide.load(Ordering::Relaxed) {
            eprintln!("note: the structured sweep of the wide layouts hit its time box of {} s after {} patterns; reported as incomplete in the evidence, the verdict is on what was explored", wide_cap, done_patterns.load(Ordering::Relaxed));
        }
        sweep_wide = json!({"layouts": lays.len(), "widths": [64, 128], "backgrounds_in_sub_space_A": if quick_tier { json!(["all bytes distinct"]) } else { json!(["00", "ff", "all bytes distinct"]) }, "patterns_per_64bit_layout": gen::structured_total(64), "patterns_per_128bit_layout": gen::structured_total(128),
            "patterns_checked": done_patterns.load(Ordering::Relaxed), "complete": hit.is_none() && done_chunks.load(Ordering::Relaxed) == work.len() as u64, "time_box_hit": capped_wide.load(Ordering::Relaxed), "time_box_s": wide_cap, "wall_s": t1.elapsed().as_secs_f64(),
            "what": "PRNG-free sub-spaces swept completely for every 64- and 128-bit layout, lean loop without event log: (A) every pair of byte positions x all 65536 values of the two bytes x three backgrounds (00, ff, all bytes distinct); (B) every combination of four sub-words (32-bit words for 128-bit layouts, 16-bit for 64-bit ones) from a palette of 48 / 32 boundary and pattern words. Per pattern: encode_to writes exactly the LE bytes, decode returns the bits and consumes them, all byte views (inherent and Fixed-trait) equal the model and invert, Wrapping bits; for one pattern in 64 the width/8-1 byte prefix fails"});
        if let Some((_, l, v)) = hit {
            // re-execute as an ordinary history so that the normal oracles, minimiser and replay apply
            let t = Trace { seed: 0, run: (v as u64) ^ ((v >> 64) as u64), input: seams::InputMode::plain(), sampled_faults: vec![], serde: vec![],
                records: vec![trace::Record { w_lay: l, r_lay: l, shape: Shape::Bare, vals: vec![v], splits: vec![], writer: trace::Writer::EncodeTo, reader: trace::Reader::Decode }] };
            let wb = world.table[l as usize].wb();
            let mut found = None;
            for f in [Fault::None, Fault::TruncateAt(wb - 1), Fault::TruncateAt(0)] {
                if let (Some(vi), _, _) = shrink::exec_single(world, &t, &f, false) {
                    found = Some((f, vi));
                    break;
                }
            }
            match found {
                Some((f, vi)) => batch.violation = Some((t.run, t, f, vi)),
                None => {
                    eprintln!("harness error: the structured sweep flagged pattern {:#x} of {} but the ordinary oracles accept it", v, world.table[l as usize].name);
                    return 2;
                }
            }
        }
    }
    // a batch that hit its wall-clock cap or did not finish is not a basis for "held": the verdict must not
    // depend on how fast this machine happens to be
    let expected_runs = runs + if sweep.is_null() { 0 } else { total };
    let incomplete = batch.violation.is_none() && (batch.capped || batch.completed < expected_runs || (sweep32.get("complete").and_then(|c| c.as_bool()) == Some(false) && sweep32.get("time_box_hit").and_then(|c| c.as_bool()) != Some(true))
        || (sweep_wide.get("complete").and_then(|c| c.as_bool()) == Some(false) && sweep_wide.get("time_box_hit").and_then(|c| c.as_bool()) != Some(true)));
    let st = &batch.stats;
    let wall = t0.elapsed().as_secs_f64();

    // violation handling: minimise, persist, re-execute in a fresh process
    let mut exit = 0;
    let mut violations = 0;
    let mut unreproducible = false;
    let mut replay_path = String::new();
    let mut pending: Option<(u64, Trace, Fault, Violation)> = batch.violation.clone();
    let mut serial_research = Value::Null;
    for attempt in 0..2 {
        let (run, t, f, v) = match pending.take() {
            Some(x) => x,
            None => break,
        };
        violations = 1;
        let (mt, mf, mv, tries) = shrink::shrink(world, &t, &f, &v);
        let _ = std::fs::create_dir_all(&args.replay_dir);
        replay_path = if args.variant == "main" {
            format!("{}/{}-{}-{}.json", args.replay_dir, args.seed, run, mv.check)
        } else {
            format!("{}/{}-{}-{}-{}.json", args.replay_dir, args.seed, run, mv.check, args.variant)
        };
        let info = json!({
            "seed": args.seed, "run": run, "tier": tier_name, "variant": args.variant, "canary": args.canary,
            "minimised": {"shrink_attempts": tries, "records_before": t.records.len(), "records_after": mt.records.len(),
                           "fault_before": f.to_json(), "fault_after": mf.to_json()},
            "original_detail": v.detail,
            "found_by": if attempt == 0 { "the seeded batch" } else { "the single-worker re-search after a violation that did not replay" },
            "regenerate_unminimised_with": if t.seed == 0 { "n/a: found by a PRNG-free sweep; the history in this file is explicit and complete".to_string() } else { format!("c10sim gen --seed {} --run {}", args.seed, run) },
        });
        let doc = replay_json(world, &mt, &mf, &mv, info);
        if let Err(e) = std::fs::write(&replay_path, serde_json::to_string_pretty(&doc).unwrap()) {
            eprintln!("harness error: cannot write {}: {}", replay_path, e);
            return 2;
        }
        // fresh-process replay must reproduce the same check id
        let reproduced = std::env::current_exe().ok().and_then(|me| std::process::Command::new(me).args(["replay", &replay_path]).output().ok()).map(|o| {
            let s = String::from_utf8_lossy(&o.stdout).to_string();
            o.status.code() == Some(1) && s.contains(&format!("REPLAY-VIOLATION check={}", mv.check))
        });
        println!("violation in run {} (seed {}): check {} record {} :: {}", run, args.seed, mv.check, mv.rec, mv.detail);
        match reproduced {
            Some(true) => {
                println!("VIOLATION property={} replay={}", PROPERTY, replay_path);
                exit = 1;
                unreproducible = false;
            }
            _ => {
                // Seen in one process, gone in the next: the outcome depends on something the simulator
                // does not own (other worker threads running at the same time, or what ran earlier on the
                // same thread). First look for a violation the simulator *does* own: the same histories
                // again on a single worker thread, where only the simulator's own interleaving (the second
                // task run inside a seam call) can make two operations overlap. If that finds nothing that
                // replays, escalate to the interpreter probe, whose two-thread phase turns a data race on
                // hidden shared state into a reported event.
                eprintln!("note: the minimised replay {} did not reproduce in a fresh process (hidden shared state in the code under test?)", replay_path);
                unreproducible = true;
                violations = 0;
                if args.workers == 1 && t.seed != 0 {
                    // found on a single thread and still not reproducible alone: the outcome depends on what
                    // this thread executed before. Replay the schedule prefix instead of the single execution.
                    let mut starts = vec![run, run.saturating_sub(3), 0];
                    starts.dedup();
                    for a in starts {
                        let mut d2 = doc.clone();
                        d2["info"]["prefix"] = json!({"first_run": a, "last_run": run, "tier": tier_name, "workers": 1,
                            "note": "the recorded execution fails only after the executions that precede it on the same thread; trace and fault above are that last execution"});
                        let p2 = replay_path.replace(".json", "-prefix.json");
                        if std::fs::write(&p2, serde_json::to_string_pretty(&d2).unwrap()).is_err() {
                            break;
                        }
                        let ok = std::env::current_exe().ok().and_then(|me| std::process::Command::new(me).args(["replay", &p2]).output().ok()).map(|o| {
                            o.status.code() == Some(1) && String::from_utf8_lossy(&o.stdout).contains(&format!("REPLAY-VIOLATION check={}", mv.check))
                        });
                        if ok == Some(true) {
                            eprintln!("note: reproduced in a fresh process as the schedule prefix runs {}..={} on one thread", a, run);
                            println!("VIOLATION property={} replay={}", PROPERTY, p2);
                            replay_path = p2;
                            exit = 1;
                            violations = 1;
                            unreproducible = false;
                            break;
                        }
                    }
                }
                if attempt == 0 && args.canary == 0 && !args.research && args.workers > 1 {
                    // in a fresh process (this one's state may already be part of the problem), one thread
                    let n = runs.min(4000);
                    let evp = format!("{}.research.json", args.evidence.clone().unwrap_or_else(|| "/verif/evidence/C10.json".into()).trim_end_matches(".json"));
                    let out = std::env::current_exe().ok().and_then(|me| {
                        std::process::Command::new(me)
                            .args(["run", "--tier", tier_name, "--seed", &args.seed.to_string(), "--runs", &n.to_string(), "--workers", "1", "--variant", &args.variant, "--research", "--evidence", &evp, "--replay-dir", &args.replay_dir, "--known", &args.known])
                            .output()
                            .ok()
                    });
                    let _ = std::fs::remove_file(&evp);
                    match out {
                        Some(o) => {
                            let so = String::from_utf8_lossy(&o.stdout).to_string();
                            let vline = so.lines().find(|l| l.starts_with("VIOLATION")).map(|l| l.to_string());
                            serial_research = json!({"histories": n, "workers": 1, "fresh_process": true, "exit": o.status.code(), "reported_a_violation_that_replays": vline.is_some()});
                            eprintln!("note: single-worker re-search over {} histories in a fresh process: {}", n, if vline.is_some() { "found a violation that replays" } else { "nothing that replays" });
                            if let (Some(1), Some(l)) = (o.status.code(), vline) {
                                for x in so.lines().filter(|l| l.starts_with("violation in run")) {
                                    println!("[single-worker re-search] {}", x);
                                }
                                println!("{}", l);
                                replay_path = l.rsplit("replay=").next().unwrap_or("").to_string();
                                exit = 1;
                                violations = 1;
                                unreproducible = false;
                            }
                        }
                        None => eprintln!("note: the single-worker re-search could not be started"),
                    }
                }
            }
        }
    }
    for (what, n) in &st.known_hits {
        println!("KNOWN-FINDING: property={} {} (seen {} times)", PROPERTY, what, n);
    }
    // alarm-path self-test: only meaningful (and only needed) when the search above held — on a violating
    // tree the alarm path has just been exercised for real, and the canary child could meet the real
    // violation before the planted one
    if exit == 0 && !unreproducible && args.canary == 0 && args.variant == "main" && !args.research {
        match alarm_path_selftest(args) {
            Ok(v) => alarm_selftest = v,
            Err(e) => {
                eprintln!("harness error: {}", e);
                return 2;
            }
        }
    }

    if exit == 0 && det_mismatch != 0 && !unreproducible {
        // the same (seed, run) produced different event logs under different worker counts / processes:
        // some behaviour depends on what ran before on the same thread or on another thread, i.e. on state
        // the simulator does not own (a static, thread-local or cached value inside the code under test
        // would do that). Treated like a violation that does not replay: escalate to the interpreter probe.
        eprintln!("note: determinism self-test failed: {} of {} run digests differ between worker counts / processes (hidden state outside the simulator's control? see the seam audit in the evidence)", det_mismatch, det_compared);
        unreproducible = true;
    }

    // the same check under the other build configurations of substrate-fixed (child processes, each
    // deterministic in (seed, histories)). A child's violation is this check's violation; event-digest
    // equality with this build is reported for information only (call granularity may legitimately differ).
    let mut variants_json = vec![json!({"variant": args.variant, "binary": std::env::current_exe().ok().map(|p| p.display().to_string()), "role": "this process"})];
    for (bin, name, n) in &args.also {
        if unreproducible || args.research {
            break; // no point multiplying a non-replayable outcome; go to the interpreter probe
        }
        let evp = format!("{}.{}.json", args.evidence.clone().unwrap_or_else(|| "/verif/evidence/C10.json".into()).trim_end_matches(".json"), name);
        let out = std::process::Command::new(bin)
            .args(["run", "--tier", "quick", "--seed", &args.seed.to_string(), "--runs", &n.to_string(), "--workers", &args.workers.to_string(), "--variant", name, "--evidence", &evp, "--replay-dir", &args.replay_dir, "--known", &args.known])
            .output();
        let out = match out {
            Ok(o) => o,
            Err(e) => {
                eprintln!("harness error: cannot run {} ({}): {}", bin, name, e);
                return 2;
            }
        };
        let so = String::from_utf8_lossy(&out.stdout).to_string();
        let child_ev: Value = std::fs::read_to_string(&evp).ok().and_then(|t| serde_json::from_str(&t).ok()).unwrap_or(Value::Null);
        let _ = std::fs::remove_file(&evp);
        // informational digest comparison on a small prefix of the same histories
        let cmp_n = 500.min(*n);
        let codec_only = name == "minimal" || name == "std-noserde";
        exec::CODEC_ONLY.store(codec_only, std::sync::atomic::Ordering::Relaxed);
        let mine = digests_of(world, args.seed, cmp_n, args.workers, Tier::Quick);
        exec::CODEC_ONLY.store(false, std::sync::atomic::Ordering::Relaxed);
        let theirs = spawn_digests(bin, args.seed, cmp_n, args.workers, codec_only).unwrap_or_default();
        let differ = mine.iter().zip(theirs.iter()).filter(|(a, b)| a != b).count() + (mine.len() as i64 - theirs.len() as i64).unsigned_abs() as usize;
        variants_json.push(json!({
            "variant": name, "binary": bin, "exit": out.status.code(),
            "histories": child_ev.pointer("/coverage/histories"), "executions": child_ev.pointer("/coverage/evaluations"),
            "violations": child_ev.get("violations"),
            "event_digests_compared_with_this_build": mine.len(), "event_digests_differing": differ,
        }));
        match out.status.code() {
            Some(0) => println!("c10sim: variant {} ({} histories) held", name, n),
            Some(1) => {
                for l in so.lines().filter(|l| l.starts_with("violation in run") || l.starts_with("VIOLATION") || l.starts_with("KNOWN-FINDING")) {
                    println!("[variant {}] {}", name, l);
                }
                if let Some(l) = so.lines().find(|l| l.starts_with("VIOLATION")) {
                    println!("{}", l);
                    if replay_path.is_empty() {
                        replay_path = l.rsplit("replay=").next().unwrap_or("").to_string();
                    }
                }
                violations += 1;
                exit = 1;
            }
            other => {
                eprintln!("harness error: variant {} exited with {:?}: {}", name, other, String::from_utf8_lossy(&out.stderr));
                if exit != 1 {
                    return 2;
                }
                // a violation that replays has already been reported by this build; it stands
                eprintln!("note: the violation reported above stands; the {} configuration gave no verdict", name);
            }
        }
    }
    let variants_json = Value::Array(variants_json);

    // interpreter probe: the PRNG-free `ubprobe` batch executed by Miri, which detects undefined
    // behaviour in the `unsafe` decode paths (derive-generated decode_into, codec's array/Box/Vec code).
    // The thorough tier runs it three times: for the host target (fully lean), and — because Miri can
    // interpret foreign targets — for a big-endian and a 32-bit target with the byte-view and size oracles
    // switched on, which is the only way this sandbox can execute the `ne` views and the encoders on a
    // host that is not little-endian / 64-bit.
    let mut ub_probe = json!({"ran": false, "why": "requested by the thorough tier, or on demand when a native violation does not replay"});
    let probe_ws = args.miri_workspace.clone().or_else(|| if unreproducible { args.miri_on_demand.clone() } else { None });
    if let Some(ws) = &probe_ws {
        let mut plans: Vec<(&str, Option<&str>, &str)> = vec![("miri", None, "2")];
        if args.miri_workspace.is_some() {
            plans.push(("miri-be", Some("s390x-unknown-linux-gnu"), "1"));
            plans.push(("miri-32", Some("i686-unknown-linux-gnu"), "1"));
        }
        let mut results = Vec::new();
        for (label, target, lean) in plans {
            let (res, hit) = miri_probe(args, ws, label, target, lean);
            results.push(res);
            if hit {
                violations += 1;
                exit = 1;
            }
        }
        ub_probe = Value::Array(results);
    }

    // evidence
    // U1 is judged inside the interpreter children: executions of the probes that completed cleanly
    let u1_execs: u64 = ub_probe
        .as_array()
        .map(|a| {
            a.iter()
                .filter_map(|p| p.get("result").and_then(|r| r.as_str()))
                .filter(|r| r.starts_with("UBPROBE-OK"))
                .filter_map(|r| r.split("executions=").nth(1).and_then(|x| x.split_whitespace().next()).and_then(|x| x.parse::<u64>().ok()))
                .sum()
        })
        .unwrap_or(0);
    let distinct_histories = st.distinct.len() as u64;
    let distinct_nontrivial: u64 = st.distinct.values().map(|v| *v as u64).sum();
    let lay_w = st.lay_written.iter().filter(|c| **c > 0).count();
    let lay_r = st.lay_read.iter().filter(|c| **c > 0).count();
    let min_w = st.lay_written.iter().min().copied().unwrap_or(0);
    let name = |i: u16| world.table[i as usize].name.to_string();
    let mut samples = Vec::new();
    for r in 0..2u64.min(runs) {
        let t = generate(world, args.seed, r);
        let w = write_phase(&world.table, &t, false).ok();
        samples.push(json!({
            "run": r,
            "trace": t.to_json(&name),
            "medium_hex": w.as_ref().map(|w| w.medium.iter().map(|b| format!("{:02x}", b)).collect::<String>()),
            "fault_plan_len": w.as_ref().map(|w| fault_plan(&t, w.medium.len(), args.tier).len()),
        }));
    }
    {
        // one faulted execution, written out with its event log
        let t = generate(world, args.seed, 0);
        if let Ok(w) = write_phase(&world.table, &t, false) {
            let cut = w.medium.len().saturating_sub(1);
            let f = Fault::TruncateAt(cut);
            let p = read_pass(&world.table, &t, &w, &f, true);
            samples.push(json!({"run": 0, "fault": f.to_json(), "fault_fired": p.stats.fired, "verdict": if p.violation.is_none() {"held"} else {"violated"},
                "events": events_json(&p.events.unwrap_or_default())}));
        }
    }
    let fault_table: Vec<Value> = (0..7).map(|i| json!({"kind": FAULT_KINDS[i], "passes_configured": st.fault_configured[i], "fired_inside_a_record": st.fault_fired[i]})).collect();
    let mode_table: Vec<Value> = (0..6).map(|i| json!({"kind": MODE_KINDS[i], "histories_configured": st.mode_hist[i]})).collect();
    let per_hour = |n: u64| if wall > 0.0 { (n as f64 / wall * 3600.0) as u64 } else { 0 };
    let ev = json!({
        "property_id": PROPERTY,
        "tier": tier_name,
        "seed": args.seed,
        "level": "fault_enumeration",
        "wall_s": wall,
        "violations": violations,
        "coverage": {
            "evaluations": st.executions,
            "distinct_nontrivial": distinct_nontrivial,
            "rule": "one evaluation = one execution of a (history, fault) pair: a seeded history of 1..8 encode/decode records over the 506 layouts (plus an optional serde op) written through the simulated codec::Output and read back through the simulated codec::Input under exactly one fault. Per history every truncation offset is enumerated (thorough tier: also every I/O-error offset and every bit flip), other faults are drawn from the run's PRNG. Distinct = distinct history digests (layouts, shapes, writers, readers, values, input mode, serde op) x distinct fault of that history; non-trivial = the fault actually fired inside a record that a reader then asked for, or (fault-free pass) the history contains a value whose little- and big-endian byte strings differ. Counted with a map keyed by history digest; a history reached twice is counted once.",
            "samples": samples,
            "exhaustive": false,
            "exhaustive_value_sweep": sweep,
            "exhaustive_32bit_sweep": sweep32,
            "structured_sweep_of_the_wide_layouts": sweep_wide,
            "histories": st.histories,
            "distinct_histories": distinct_histories,
            "histories_requested": runs,
            "histories_completed": batch.completed,
            "wall_clock_cap_hit": batch.capped,
            "runs_per_hour": per_hour(st.histories),
            "executions_per_hour": per_hour(st.executions),
            "seeds": {"VERIF_SEED": args.seed, "per_run_stream": "SplitMix64 keyed by (VERIF_SEED, run index)", "run_indices": format!("0..{}", runs)},
            "simulated_time": "none: the code under test has no timers, clocks or deadlines; progress is measured in logical steps (seam calls)",
            "logical_steps_seam_calls": st.steps,
            "records_written": st.records_written,
            "records_read": st.records_read,
            "serde_ops": st.serde_ops,
            "faults": fault_table,
            "input_mode_perturbations": mode_table,
            "short_reads_delivered": st.short_reads,
            "eintr_delivered": st.eintrs,
            "decodes_that_only_propagated_a_remaining_len_error_tolerated": st.rl_err_propagated,
            "interleaved_second_task": {
                "what": "a complete encode + decode (+ one decode cut short) of another value, usually of another layout, run by the simulator while the first operation is suspended inside one seam call (Output::write / push_byte incl. the closure of using_encoded, Input::read / read_byte): cooperative interleaving of two tasks at the points where the library hands control to its caller",
                "histories_configured": st.nest_hist,
                "second_tasks_run_inside_an_output_call": st.nest_fired_w,
                "second_tasks_run_inside_an_input_call": st.nest_fired_r,
            },
            "max_stream_bytes": st.max_stream,
            "max_records_per_history": st.max_records,
            "coverage_cells": {
                "layouts_as_writer": {"reached": lay_w, "total": world.table.len(), "min_records_per_layout": min_w},
                "layouts_as_reader": {"reached": lay_r, "total": world.table.len()},
                "family_x_shape_x_writer_x_reader": {"reached": count_bits(&st.cell_fswr), "total": valid_fswr_cells()},
                "family_x_faultkind_x_byte_offset_in_bare_record": {"reached": count_bits(&st.cell_fault), "total": valid_fault_cells()},
            },
            "determinism": {"run_digests_compared": det_compared, "mismatches": det_mismatch, "worker_counts": [1, args.workers.max(2)], "fresh_process": fresh_process},
            "build_configurations": variants_json,
            "interpreter_probe": ub_probe,
            "native_violation_that_did_not_replay": unreproducible,
            "alarm_path_selftest": alarm_selftest,
            "single_worker_research_after_a_violation_that_did_not_replay": serial_research,
            "components": {
                "real_code": ["substrate-fixed derived Encode/Decode/MaxEncodedLen/TypeInfo for FixedI8..FixedU128 (incl. derive-generated decode_into)", "substrate-fixed from_bits/to_bits/{from,to}_{le,be,ne}_bytes (inherent and Fixed-trait)", "substrate-fixed Wrapping::{from_bits,to_bits}", "substrate-fixed serde Serialize/Deserialize impls (Fixed*, Wrapping)", "parity-scale-codec 3.7.5 integer/array/Vec/Option/tuple/Box codecs, Compact<u32> length prefix, EncodeAppend, DecodeLength, DecodeAll, DecodeLimit, Joiner, KeyedVec, IoReader", "std::io::Read::read_exact", "scale-info registry", "serde_json, serde_cbor"],
                "stubs_owned_by_the_simulator": ["SimOutput (codec::Output)", "SimInput (codec::Input)", "SimRead (std::io::Read under IoReader)", "TokSer / TokDe (serde Serializer / Deserializer, SeqAccess, MapAccess)", "the medium (a byte vector)", "the second task run inside a seam call (SimInput / SimOutput hooks)", "reference model: bits >> 8i little-endian bytes + shape framing", "metadata-driven foreign decoder", "hand-written LE reader"],
                "absent_not_simulated": ["pre-emptive scheduler / threads (the library starts none; the overlap of two uses of the library is simulated cooperatively, a second task run inside a seam call: coverage.interleaved_second_task; real threads only in the interpreter probe's two-thread phase)", "clock/timers", "network topology", "process crash/restart", "allocator failure"],
            },
            "oracle_evaluations_that_held": exec::CHECK_IDS.iter().enumerate().map(|(i, id)| (id.to_string(), if *id == "U1" { json!(u1_execs) } else { json!(st.checks_ok[i]) })).collect::<serde_json::Map<String, Value>>(),
            "oracle_to_clause": {
                "E1": "a: encode == width/8 LE bytes of the bits (reference model), every writer entry point",
                "E2": "b: max_encoded_len == encoded_size == encode().len() == width/8 (containers: equal to the integer twin's)",
                "E3": "a: identical to the encoding of the underlying integer, every shape",
                "A1": "a/c on stored bytes: EncodeAppend + DecodeLength",
                "D1": "c, f: decode returns the model bits, also through another frac/signedness, the integer twin, the hand LE reader, the metadata-driven reader",
                "D2": "c: exactly the record's bytes are consumed (later records stay aligned); trailing bytes left unread / rejected by decode_all",
                "D3": "d: decoding fewer bytes fails (every strict prefix; EOF and I/O error); never Ok, never a panic",
                "D4": "a, c, e: a flipped stored bit flips exactly that value bit; corrupted framing behaves as for the integer twin",
                "R1": "a, c, d for every caller: the codec is a function of the value / the bytes only — a second encode/decode task run while the first is suspended inside a seam call neither disturbs it nor is disturbed (no hidden state shared between calls)",
                "D5": "c, d under delivery modes: short reads, EINTR, remaining_len None/Err, native read_byte are absorbed",
                "D6": "bounded recovery: after a failed decode the intact record decodes on the next attempt",
                "B1": "e: from_bits/to_bits and le/be/ne views are mutually inverse; inherent == Fixed-trait; Wrapping<F>",
                "M1": "f: published scale-info metadata describes exactly one integer of the family's width and signedness",
                "S1": "g: serde serialises as struct <Name> { bits } (Fixed and Wrapping)",
                "S2": "g: deserialises from sequence and map presentations, own-width and widened integers",
                "S3": "g + d: a serde stream cut short or failing gives Err",
                "S4": "g: serde_json / serde_cbor identical to a derived { bits } struct, incl. every strict prefix of the text/bytes",
                "S5": "g: an integer that does not fit the width is rejected whenever the derived { bits } struct rejects it (never accepted as a wrapped value)",
                "L1": "a, c through generic storage APIs: every declared EncodeLike relation between a layout and a primitive integer stores bytes that the slot type decodes completely (same width: to the same bits)",
                "D7": "c under depth limits: a successful decode leaves the input's nesting depth where it found it (descend_ref / ascend_ref balanced)",
                "U1": "c, d (thorough tier): no undefined behaviour reported by Miri on the unsafe decode paths of the PRNG-free probe batch",
            },
            "known_findings_seen": st.known_hits,
            "seam_audit": args.seam_audit.as_ref().and_then(|p| std::fs::read_to_string(p).ok()).and_then(|t| serde_json::from_str::<Value>(&t).ok()).unwrap_or(Value::Null),
            "replay": if replay_path.is_empty() { Value::Null } else { json!(replay_path) },
        },
        "assumptions": [
            "parity-scale-codec's own integer codec is the reference for 'the encoding of the underlying integer' (the property names it)",
            "a panic while decoding short input counts as a failure of 'decoding fewer bytes fails' (Decode::decode returns Result; a panic in a runtime is an abort); undefined behaviour reported by Miri on a decode path counts as a violation too",
            "inputs are modelled as honest about their length or silent: remaining_len() is exact, None, Err or over-reporting; an input that UNDER-reports breaks the Input contract and is not modelled (codec's own decoders fail on it)",
            "C10 is read as a statement about the types' own Encode/Decode/MaxEncodedLen/TypeInfo, byte views, bits and serde form; separately specified encodings a change might add (e.g. a compact form via HasCompact) are out of scope; an added SCALE codec on Wrapping<F> and added EncodeLike relations are in scope (L1)",
            "the serde struct name (FixedI8 .. FixedU128) and the integer's own width are taken to be part of 'the serde representation {bits}'",
            "the seeded batches run on this little-endian 64-bit host only; the probe batch of the thorough tier also runs on interpreted big-endian (s390x) and 32-bit (i686) targets",
            "histories and 64/128-bit values are sampled (seeded); a clean batch is evidence, not proof. 8-bit (quick) and 16/32-bit (thorough) bit patterns are swept exhaustively through the canonical encode_to/decode pair",
        ],
    });
    let ev_path = args.evidence.clone().unwrap_or_else(|| "/verif/evidence/C10.json".into());
    if let Some(dir) = std::path::Path::new(&ev_path).parent() {
        let _ = std::fs::create_dir_all(dir);
    }
    if let Err(e) = std::fs::write(&ev_path, serde_json::to_string_pretty(&ev).unwrap()) {
        eprintln!("harness error: cannot write evidence {}: {}", ev_path, e);
        return 2;
    }
    println!(
        "c10sim: {} histories, {} executions ({} non-trivial distinct), {} seam calls, {:.1}s; faults fired: {}",
        st.histories,
        st.executions,
        distinct_nontrivial,
        st.steps,
        wall,
        (0..7).map(|i| format!("{}={}", FAULT_KINDS[i], st.fault_fired[i])).collect::<Vec<_>>().join(" ")
    );
    if exit == 0 && incomplete {
        eprintln!("harness error: the batch did not run to completion ({} of {} histories, wall-clock cap hit: {}); no verdict (raise --cap-s / VERIF_CAP_S or lower --runs)", batch.completed, expected_runs, batch.capped);
        return 2;
    }
    if exit == 0 && unreproducible {
        eprintln!("harness error: a native run misbehaved in a way that does not replay (see the notes above) and the interpreter probe did not pin it down; no verdict");
        return 2;
    }
    if exit == 0 {
        println!("c10sim: property {} held on everything explored", PROPERTY);
    }
    exit
}
