//! Trace minimisation: shrink the history and the fault while the *same check
//! id* keeps failing. Purely deterministic; no PRNG.

use crate::exec::{model_bytes, read_pass, validate, write_phase, Violation};
use crate::gen::World;
use simcore::seams::{InputMode, RlMode};
use simcore::trace::{Fault, Reader, Record, Shape, Trace, Writer};

/// Execute one (history, fault) pair; `record_events` keeps the event log.
pub fn exec_single(world: &World, t: &Trace, fault: &Fault, record_events: bool) -> (Option<Violation>, Vec<(u8, u64, u64)>, u64) {
    if let Err(m) = validate(&world.table, t) {
        return (None, vec![(0, 0, 0)], m.len() as u64);
    }
    match write_phase(&world.table, t, record_events) {
        Err(v) => (Some(v), Vec::new(), 0),
        Ok(w) => {
            let p = read_pass(&world.table, t, &w, fault, record_events);
            let mut evs = w.events.clone().unwrap_or_default();
            evs.extend(p.events.clone().unwrap_or_default());
            (p.violation, evs, w.digest ^ p.digest.rotate_left(1))
        }
    }
}

fn rec_len(world: &World, r: &Record) -> usize {
    model_bytes(r, world.table[r.w_lay as usize].wb()).0.len()
}
fn starts(world: &World, t: &Trace) -> Vec<usize> {
    let mut v = Vec::new();
    let mut at = 0;
    for r in &t.records {
        v.push(at);
        at += rec_len(world, r);
    }
    v.push(at);
    v
}

struct Shrinker<'a> {
    world: &'a World,
    check: &'static str,
    best: (Trace, Fault, Violation),
    tries: u32,
}
impl<'a> Shrinker<'a> {
    fn attempt(&mut self, t: Trace, f: Fault) -> bool {
        if self.tries > 20_000 {
            return false;
        }
        self.tries += 1;
        if validate(&self.world.table, &t).is_err() {
            return false;
        }
        if let (Some(v), _, _) = exec_single(self.world, &t, &f, false) {
            if v.check == self.check {
                self.best = (t, f, v);
                return true;
            }
        }
        false
    }
    /// After a structural change of record `i`, look for a position of the same fault kind that still fails.
    fn attempt_reanchored(&mut self, t: Trace, i: usize) -> bool {
        let f = self.best.1.clone();
        if self.attempt(t.clone(), f.clone()) {
            return true;
        }
        let st = starts(self.world, &t);
        if i + 1 >= st.len() {
            return false;
        }
        let (s, e) = (st[i], st[i + 1]);
        match f {
            Fault::TruncateAt(_) => (s..e).any(|c| self.attempt(t.clone(), Fault::TruncateAt(c))),
            Fault::IoErrorAt(_) => (s..e).any(|c| self.attempt(t.clone(), Fault::IoErrorAt(c))),
            Fault::BitFlip(_) => (s * 8..e * 8).any(|p| self.attempt(t.clone(), Fault::BitFlip(p))),
            _ => false,
        }
    }
}

pub fn shrink(world: &World, t: &Trace, f: &Fault, v: &Violation) -> (Trace, Fault, Violation, u32) {
    let mut t0 = t.clone();
    t0.sampled_faults.clear();
    let mut sh = Shrinker { world, check: v.check, best: (t0.clone(), f.clone(), v.clone()), tries: 0 };
    // make sure the starting point fails in this form at all
    if !sh.attempt(t0, f.clone()) {
        return (t.clone(), f.clone(), v.clone(), 0);
    }
    loop {
        let before = (sh.best.0.clone(), sh.best.1.clone());
        // 1. the fault itself may be unnecessary
        if sh.best.1 != Fault::None {
            let t = sh.best.0.clone();
            sh.attempt(t, Fault::None);
        }
        // 2. drop serde ops / records
        if !sh.best.0.serde.is_empty() {
            let mut t = sh.best.0.clone();
            t.serde.clear();
            sh.attempt(t, sh.best.1.clone());
        }
        if !sh.best.0.serde.is_empty() && !sh.best.0.records.is_empty() {
            let mut t = sh.best.0.clone();
            t.records.clear();
            sh.attempt(t, Fault::None);
        }
        let mut i = 0;
        while i < sh.best.0.records.len() {
            if sh.best.0.records.len() == 1 && sh.best.0.serde.is_empty() {
                break;
            }
            let st = starts(world, &sh.best.0);
            let (s, e) = (st[i], st[i + 1]);
            let mut t = sh.best.0.clone();
            t.records.remove(i);
            let shifted = |x: usize| -> Option<usize> {
                if x >= e {
                    Some(x - (e - s))
                } else if x < s {
                    Some(x)
                } else {
                    None
                }
            };
            let f2 = match &sh.best.1 {
                Fault::TruncateAt(c) => shifted(*c).map(Fault::TruncateAt),
                Fault::IoErrorAt(c) => shifted(*c).map(Fault::IoErrorAt),
                Fault::BitFlip(p) => shifted(*p / 8).map(|b| Fault::BitFlip(b * 8 + *p % 8)),
                other => Some(other.clone()),
            };
            let removed = match f2 {
                Some(f2) => sh.attempt(t, f2),
                None => false,
            };
            if !removed {
                i += 1;
            }
        }
        // 3. per record simplifications
        for i in 0..sh.best.0.records.len() {
            let r = sh.best.0.records[i].clone();
            if r.shape != Shape::Bare && !r.vals.is_empty() {
                let mut t = sh.best.0.clone();
                let writer = if r.writer.container_ok() { r.writer } else { Writer::EncodeTo };
                t.records[i] = Record { shape: Shape::Bare, vals: vec![r.vals[0]], splits: vec![], writer, ..r.clone() };
                sh.attempt_reanchored(t, i);
            }
            let r = sh.best.0.records[i].clone();
            if r.shape == Shape::Vec || r.shape == Shape::Append {
                for k in (0..r.vals.len()).rev() {
                    let mut t = sh.best.0.clone();
                    let mut vals = r.vals.clone();
                    vals.truncate(k);
                    let splits = if r.shape == Shape::Append { vals.iter().map(|_| 1u8).collect() } else { vec![] };
                    t.records[i] = Record { vals, splits, ..r.clone() };
                    if sh.attempt_reanchored(t, i) {
                        break;
                    }
                }
            }
            let r = sh.best.0.records[i].clone();
            if r.r_lay != r.w_lay {
                let mut t = sh.best.0.clone();
                t.records[i].r_lay = r.w_lay;
                sh.attempt(t, sh.best.1.clone());
            }
            for w in [Writer::Encode, Writer::EncodeTo] {
                if sh.best.0.records[i].writer != w && sh.best.0.records[i].writer != Writer::Encode {
                    let mut t = sh.best.0.clone();
                    t.records[i].writer = w;
                    if sh.attempt(t, sh.best.1.clone()) {
                        break;
                    }
                }
            }
            if sh.best.0.records[i].reader != Reader::Decode {
                let mut t = sh.best.0.clone();
                t.records[i].reader = Reader::Decode;
                sh.attempt(t, sh.best.1.clone());
            }
            // values: canonical constants first, then clear bits
            for j in 0..sh.best.0.records[i].vals.len() {
                let w = world.table[sh.best.0.records[i].w_lay as usize].w;
                let mask = if w == 128 { u128::MAX } else { (1u128 << w) - 1 };
                let distinct = (0..(w / 8) as u128).fold(0u128, |a, k| a | ((k + 1) << (8 * k)));
                let mut done = false;
                for c in [0u128, 1, distinct & mask] {
                    if sh.best.0.records[i].vals[j] == c {
                        done = true;
                        break;
                    }
                    let mut t = sh.best.0.clone();
                    t.records[i].vals[j] = c;
                    // a bit flip position may depend on the value; keep the fault as is
                    if sh.attempt(t, sh.best.1.clone()) {
                        done = true;
                        break;
                    }
                }
                if !done {
                    for b in 0..w {
                        let cur = sh.best.0.records[i].vals[j];
                        if cur & (1u128 << b) != 0 && cur.count_ones() > 1 {
                            let mut t = sh.best.0.clone();
                            t.records[i].vals[j] = cur & !(1u128 << b);
                            sh.attempt(t, sh.best.1.clone());
                        }
                    }
                }
            }
        }
        for k in 0..sh.best.0.serde.len() {
            let o = sh.best.0.serde[k].clone();
            for c in [0u128, 1] {
                if o.bits != c {
                    let mut t = sh.best.0.clone();
                    t.serde[k].bits = c;
                    if sh.attempt(t, sh.best.1.clone()) {
                        break;
                    }
                }
            }
            if sh.best.0.serde[k].wrapping {
                let mut t = sh.best.0.clone();
                t.serde[k].wrapping = false;
                sh.attempt(t, sh.best.1.clone());
            }
        }
        // 4. input mode → plain
        if sh.best.0.input != InputMode::plain() {
            let mut t = sh.best.0.clone();
            t.input = InputMode::plain();
            if !sh.attempt(t, sh.best.1.clone()) {
                if sh.best.0.input.io.is_some() {
                    let mut t = sh.best.0.clone();
                    t.input.io = None;
                    sh.attempt(t, sh.best.1.clone());
                }
                if let Some(io) = sh.best.0.input.io.clone() {
                    if io.eintr_mask != 0 {
                        let mut t = sh.best.0.clone();
                        t.input.io.as_mut().unwrap().eintr_mask = 0;
                        sh.attempt(t, sh.best.1.clone());
                    }
                    if io.chunks.len() > 1 {
                        let mut t = sh.best.0.clone();
                        t.input.io.as_mut().unwrap().chunks.truncate(1);
                        sh.attempt(t, sh.best.1.clone());
                    }
                }
                if sh.best.0.input.rl != RlMode::Exact {
                    let mut t = sh.best.0.clone();
                    t.input.rl = RlMode::Exact;
                    sh.attempt(t, sh.best.1.clone());
                }
                if sh.best.0.input.native_read_byte {
                    let mut t = sh.best.0.clone();
                    t.input.native_read_byte = false;
                    sh.attempt(t, sh.best.1.clone());
                }
                if sh.best.0.input.nest.is_some() {
                    // the interleaved second task: drop it, else make it as simple as it can be
                    let mut t = sh.best.0.clone();
                    t.input.nest = None;
                    if !sh.attempt(t, sh.best.1.clone()) {
                        for bits in [0u128, 1] {
                            let mut t = sh.best.0.clone();
                            if t.input.nest.as_ref().map(|n| n.bits) != Some(bits) {
                                t.input.nest.as_mut().unwrap().bits = bits;
                                if sh.attempt(t, sh.best.1.clone()) {
                                    break;
                                }
                            }
                        }
                        if sh.best.0.input.nest.as_ref().map(|n| n.at) != Some(0) {
                            let mut t = sh.best.0.clone();
                            t.input.nest.as_mut().unwrap().at = 0;
                            sh.attempt(t, sh.best.1.clone());
                        }
                    }
                }
            }
        }
        // 5. smallest failing offset of the same fault kind
        match sh.best.1.clone() {
            Fault::TruncateAt(c) => {
                for x in 0..c {
                    if sh.attempt(sh.best.0.clone(), Fault::TruncateAt(x)) {
                        break;
                    }
                }
            }
            Fault::IoErrorAt(c) => {
                for x in 0..c {
                    if sh.attempt(sh.best.0.clone(), Fault::IoErrorAt(x)) {
                        break;
                    }
                }
            }
            Fault::TransientAt(c) => {
                for x in 0..c {
                    if sh.attempt(sh.best.0.clone(), Fault::TransientAt(x)) {
                        break;
                    }
                }
            }
            Fault::BitFlip(p) => {
                for x in 0..p {
                    if sh.attempt(sh.best.0.clone(), Fault::BitFlip(x)) {
                        break;
                    }
                }
            }
            Fault::Trailing(b) if b.len() > 1 || b.first() != Some(&0) => {
                sh.attempt(sh.best.0.clone(), Fault::Trailing(vec![0]));
            }
            _ => {}
        }
        if (sh.best.0.clone(), sh.best.1.clone()) == before {
            break;
        }
    }
    (sh.best.0, sh.best.1, sh.best.2, sh.tries)
}
