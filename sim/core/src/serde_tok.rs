//! Token-level simulation of the serde seam: a `Serializer` that records the
//! calls the real `Serialize` impl makes, and a `Deserializer` that presents a
//! token stream to the real `Deserialize` impl in the two ways real formats do
//! (as a sequence — compact binary formats; as a map — self-describing
//! formats), optionally cutting the stream short. Plus two real formats
//! (serde_json, serde_cbor) run differentially against a derived one-field
//! struct `{ bits }` of the underlying integer.


#[derive(Clone, Debug, PartialEq, Eq)]
pub enum Tok {
    Struct(String, usize),
    Field(String),
    /// (width, bit pattern masked to width, signed)
    Int(u32, u128, bool),
    End,
}


/// substrate-fixed was built with its `serde` feature and the serde seam is simulated.
pub const SERDE_ON: bool = cfg!(feature = "sf-serde");

#[derive(Clone, Copy, Debug, PartialEq, Eq, PartialOrd, Ord, Hash)]
pub enum Pres {
    /// `visit_seq` with the integer delivered in its own width (bincode / postcard style)
    Seq,
    /// `visit_map`, key delivered as a borrowed-less `str`, integer in its own width
    Map,
    /// `visit_map`, integer delivered widened (u64/i64, or 128-bit when it does not fit) as JSON-like formats do
    MapWidened,
    /// `visit_seq`, widened integer
    SeqWidened,
    /// `visit_map`, key delivered with `visit_borrowed_str` (zero-copy formats reading from a `&str`)
    MapBorrowedKey,
    /// `visit_map`, key delivered with `visit_string` (formats reading from a stream, buffered `Content`)
    MapOwnedKey,
    /// `visit_seq` whose access object announces its length (`size_hint() == Some(1)`)
    SeqHinted,
}
pub const PRESENTATIONS: [Pres; 7] = [Pres::Seq, Pres::Map, Pres::MapWidened, Pres::SeqWidened, Pres::MapBorrowedKey, Pres::MapOwnedKey, Pres::SeqHinted];
impl Pres {
    pub fn is_seq(self) -> bool {
        matches!(self, Pres::Seq | Pres::SeqWidened | Pres::SeqHinted)
    }
}

#[derive(Clone, Copy, Debug, PartialEq, Eq, PartialOrd, Ord, Hash)]
pub enum SerdeFault {
    None,
    /// the stream ends before the field: empty sequence / empty map
    EndsEarly,
    /// the access object reports a transport error instead of the element / key
    AccessError,
    /// the value after the key cannot be delivered (error from `next_value`)
    ValueError,
}
pub const SERDE_FAULTS: [SerdeFault; 4] = [SerdeFault::None, SerdeFault::EndsEarly, SerdeFault::AccessError, SerdeFault::ValueError];

#[derive(Clone, Copy)]
pub struct SerdeOps {
    /// tokens emitted by the real Serialize impl (plain, Wrapping)
    /// (bits, wrapping, format claims to be human readable)
    pub ser: fn(u128, bool, bool) -> Result<Vec<Tok>, String>,
    /// drive the real Deserialize impl from a simulated token stream
    /// (bits, wrapping, presentation, stream fault, human readable, through `deserialize_in_place` into a
    /// slot that holds another value)
    pub de: fn(u128, bool, Pres, SerdeFault, bool, bool) -> (Result<u128, String>, Option<(String, Vec<String>)>),
    /// a document with several values (`Doc`): JSON text by the library's types and by the integer twin
    pub doc_json: fn(&[u128; 4], bool) -> (Result<String, String>, Result<String, String>),
    /// parse a `Doc` JSON text with the library's types and with the integer twin
    pub doc_unjson: fn(&str, bool) -> (Result<Vec<u128>, String>, Result<Vec<u128>, String>),
    pub doc_cbor: fn(&[u128; 4], bool) -> (Result<Vec<u8>, String>, Result<Vec<u8>, String>),
    pub doc_uncbor: fn(&[u8], bool) -> (Result<Vec<u128>, String>, Result<Vec<u128>, String>),
    pub json: fn(u128, bool) -> Result<String, String>,
    pub json_twin: fn(u128) -> Result<String, String>,
    pub unjson: fn(&str, bool) -> Result<u128, String>,
    pub unjson_twin: fn(&str) -> Result<u128, String>,
    /// through `serde_json::from_reader` (keys arrive as owned, not borrowed, strings)
    pub unjson_reader: fn(&str, bool) -> Result<u128, String>,
    pub cbor: fn(u128, bool) -> Result<Vec<u8>, String>,
    pub cbor_twin: fn(u128) -> Result<Vec<u8>, String>,
    pub uncbor: fn(&[u8], bool) -> Result<u128, String>,
    pub uncbor_twin: fn(&[u8]) -> Result<u128, String>,
}

#[cfg(feature = "sf-serde")]
pub use real::serde_ops;
#[cfg(feature = "sf-serde")]
pub use real::*;

/// Without the `serde` feature there is no serde seam; the entry points exist but are never called.
#[cfg(not(feature = "sf-serde"))]
pub fn serde_ops<T: crate::lay::Lay>() -> SerdeOps {
    fn off<A>() -> Result<A, String> {
        Err("substrate-fixed built without its serde feature".into())
    }
    SerdeOps {
        ser: |_, _, _| off(),
        de: |_, _, _, _, _, _| (off(), None),
        doc_json: |_, _| (off(), off()),
        doc_unjson: |_, _| (off(), off()),
        doc_cbor: |_, _| (off(), off()),
        doc_uncbor: |_, _| (off(), off()),
        json: |_, _| off(),
        json_twin: |_| off(),
        unjson: |_, _| off(),
        unjson_twin: |_| off(),
        unjson_reader: |_, _| off(),
        cbor: |_, _| off(),
        cbor_twin: |_| off(),
        uncbor: |_, _| off(),
        uncbor_twin: |_| off(),
    }
}

#[cfg(feature = "sf-serde")]
mod real {
use super::*;
use crate::lay::{Elem, LaySerde as Lay};
use serde::de::{self, DeserializeSeed, Deserializer, MapAccess, SeqAccess, Visitor};
use serde::ser::{self, Impossible, Serialize, SerializeStruct, Serializer};
use std::fmt;

#[derive(Debug)]
pub struct TokErr(pub String);
impl fmt::Display for TokErr {
    fn fmt(&self, f: &mut fmt::Formatter) -> fmt::Result {
        f.write_str(&self.0)
    }
}
impl std::error::Error for TokErr {}
impl ser::Error for TokErr {
    fn custom<T: fmt::Display>(m: T) -> Self {
        TokErr(m.to_string())
    }
}
impl de::Error for TokErr {
    fn custom<T: fmt::Display>(m: T) -> Self {
        TokErr(m.to_string())
    }
}

// ------------------------------------------------------------------ serializer

pub struct TokSer<'a>(pub &'a mut Vec<Tok>, pub bool);

macro_rules! ser_int {
    ($($m:ident $t:ty, $w:expr, $u:ty, $s:expr;)*) => {$(
        fn $m(self, v: $t) -> Result<(), TokErr> { self.0.push(Tok::Int($w, v as $u as u128, $s)); Ok(()) }
    )*};
}
macro_rules! ser_no {
    ($($m:ident($($a:ident: $t:ty),*) -> $r:ty;)*) => {$(
        fn $m(self $(, $a: $t)*) -> Result<$r, TokErr> { $(let _ = $a;)* Err(TokErr(concat!("unexpected serializer call ", stringify!($m)).into())) }
    )*};
}

impl<'a> Serializer for TokSer<'a> {
    type Ok = ();
    type Error = TokErr;
    type SerializeSeq = Impossible<(), TokErr>;
    type SerializeTuple = Impossible<(), TokErr>;
    type SerializeTupleStruct = Impossible<(), TokErr>;
    type SerializeTupleVariant = Impossible<(), TokErr>;
    type SerializeMap = Impossible<(), TokErr>;
    type SerializeStruct = TokSerStruct<'a>;
    type SerializeStructVariant = Impossible<(), TokErr>;

    ser_int! {
        serialize_i8 i8, 8, u8, true;
        serialize_i16 i16, 16, u16, true;
        serialize_i32 i32, 32, u32, true;
        serialize_i64 i64, 64, u64, true;
        serialize_i128 i128, 128, u128, true;
        serialize_u8 u8, 8, u8, false;
        serialize_u16 u16, 16, u16, false;
        serialize_u32 u32, 32, u32, false;
        serialize_u64 u64, 64, u64, false;
        serialize_u128 u128, 128, u128, false;
    }
    ser_no! {
        serialize_bool(v: bool) -> ();
        serialize_f32(v: f32) -> ();
        serialize_f64(v: f64) -> ();
        serialize_char(v: char) -> ();
        serialize_str(v: &str) -> ();
        serialize_bytes(v: &[u8]) -> ();
        serialize_none() -> ();
        serialize_unit() -> ();
        serialize_unit_struct(n: &'static str) -> ();
        serialize_unit_variant(n: &'static str, i: u32, v: &'static str) -> ();
        serialize_seq(l: Option<usize>) -> Self::SerializeSeq;
        serialize_tuple(l: usize) -> Self::SerializeTuple;
        serialize_tuple_struct(n: &'static str, l: usize) -> Self::SerializeTupleStruct;
        serialize_tuple_variant(n: &'static str, i: u32, v: &'static str, l: usize) -> Self::SerializeTupleVariant;
        serialize_map(l: Option<usize>) -> Self::SerializeMap;
        serialize_struct_variant(n: &'static str, i: u32, v: &'static str, l: usize) -> Self::SerializeStructVariant;
    }
    fn serialize_some<T: ?Sized + Serialize>(self, _: &T) -> Result<(), TokErr> {
        Err(TokErr("unexpected serializer call serialize_some".into()))
    }
    fn serialize_newtype_struct<T: ?Sized + Serialize>(self, n: &'static str, _: &T) -> Result<(), TokErr> {
        Err(TokErr(format!("unexpected serializer call serialize_newtype_struct({})", n)))
    }
    fn serialize_newtype_variant<T: ?Sized + Serialize>(self, n: &'static str, _: u32, _: &'static str, _: &T) -> Result<(), TokErr> {
        Err(TokErr(format!("unexpected serializer call serialize_newtype_variant({})", n)))
    }
    fn is_human_readable(&self) -> bool {
        self.1
    }
    fn serialize_struct(self, name: &'static str, len: usize) -> Result<TokSerStruct<'a>, TokErr> {
        self.0.push(Tok::Struct(name.to_string(), len));
        Ok(TokSerStruct(self.0, self.1))
    }
}

pub struct TokSerStruct<'a>(&'a mut Vec<Tok>, bool);
impl<'a> SerializeStruct for TokSerStruct<'a> {
    type Ok = ();
    type Error = TokErr;
    fn serialize_field<T: ?Sized + Serialize>(&mut self, key: &'static str, value: &T) -> Result<(), TokErr> {
        self.0.push(Tok::Field(key.to_string()));
        value.serialize(TokSer(self.0, self.1))
    }
    fn end(self) -> Result<(), TokErr> {
        self.0.push(Tok::End);
        Ok(())
    }
}

// ------------------------------------------------------------------ deserializer



pub struct TokDe {
    pub pres: Pres,
    pub fault: SerdeFault,
    pub width: u32,
    pub signed: bool,
    pub bits: u128,
    /// what the impl asked for: (struct name, field list)
    pub asked: Option<(String, Vec<String>)>,
    /// what `is_human_readable()` answers
    pub hr: bool,
}

struct IntDe {
    width: u32,
    signed: bool,
    bits: u128,
    widened: bool,
}
fn sext(bits: u128, width: u32) -> i128 {
    if width == 128 {
        bits as i128
    } else {
        let sh = 128 - width;
        ((bits << sh) as i128) >> sh
    }
}
impl<'de> Deserializer<'de> for IntDe {
    type Error = TokErr;
    fn deserialize_any<V: Visitor<'de>>(self, v: V) -> Result<V::Value, TokErr> {
        if self.widened {
            if self.signed {
                let x = sext(self.bits, self.width);
                if x >= 0 && x <= u64::MAX as i128 {
                    v.visit_u64(x as u64)
                } else if x >= i64::MIN as i128 && x < 0 {
                    v.visit_i64(x as i64)
                } else {
                    v.visit_i128(x)
                }
            } else if self.bits <= u64::MAX as u128 {
                v.visit_u64(self.bits as u64)
            } else {
                v.visit_u128(self.bits)
            }
        } else {
            match (self.signed, self.width) {
                (true, 8) => v.visit_i8(sext(self.bits, 8) as i8),
                (true, 16) => v.visit_i16(sext(self.bits, 16) as i16),
                (true, 32) => v.visit_i32(sext(self.bits, 32) as i32),
                (true, 64) => v.visit_i64(sext(self.bits, 64) as i64),
                (true, _) => v.visit_i128(self.bits as i128),
                (false, 8) => v.visit_u8(self.bits as u8),
                (false, 16) => v.visit_u16(self.bits as u16),
                (false, 32) => v.visit_u32(self.bits as u32),
                (false, 64) => v.visit_u64(self.bits as u64),
                (false, _) => v.visit_u128(self.bits),
            }
        }
    }
    serde::forward_to_deserialize_any! {
        bool i8 i16 i32 i64 i128 u8 u16 u32 u64 u128 f32 f64 char str string bytes byte_buf option unit
        unit_struct newtype_struct seq tuple tuple_struct map struct enum identifier ignored_any
    }
}

struct OneSeq<'a>(&'a TokDe, bool);
impl<'de, 'a> SeqAccess<'de> for OneSeq<'a> {
    type Error = TokErr;
    fn next_element_seed<S: DeserializeSeed<'de>>(&mut self, seed: S) -> Result<Option<S::Value>, TokErr> {
        if self.1 {
            return Ok(None);
        }
        self.1 = true;
        match self.0.fault {
            SerdeFault::EndsEarly => Ok(None),
            SerdeFault::AccessError | SerdeFault::ValueError => Err(TokErr("sim: transport error".into())),
            SerdeFault::None => seed
                .deserialize(IntDe { width: self.0.width, signed: self.0.signed, bits: self.0.bits, widened: self.0.pres == Pres::SeqWidened })
                .map(Some),
        }
    }
    fn size_hint(&self) -> Option<usize> {
        if self.0.pres == Pres::SeqHinted && !self.1 {
            Some(1)
        } else if self.0.pres == Pres::SeqHinted {
            Some(0)
        } else {
            None
        }
    }
}

/// The field identifier, handed to the visitor the way the presentation says.
struct KeyDe(Pres);
impl<'de> Deserializer<'de> for KeyDe {
    type Error = TokErr;
    fn deserialize_any<V: Visitor<'de>>(self, v: V) -> Result<V::Value, TokErr> {
        match self.0 {
            Pres::MapBorrowedKey => v.visit_borrowed_str("bits"),
            Pres::MapOwnedKey => v.visit_string(String::from("bits")),
            _ => {
                // a transient string (scratch buffer of the format)
                let scratch = String::from("bits");
                v.visit_str(&scratch)
            }
        }
    }
    serde::forward_to_deserialize_any! {
        bool i8 i16 i32 i64 i128 u8 u16 u32 u64 u128 f32 f64 char str string bytes byte_buf option unit
        unit_struct newtype_struct seq tuple tuple_struct map struct enum identifier ignored_any
    }
}

struct OneMap<'a>(&'a TokDe, u8);
impl<'de, 'a> MapAccess<'de> for OneMap<'a> {
    type Error = TokErr;
    fn next_key_seed<S: DeserializeSeed<'de>>(&mut self, seed: S) -> Result<Option<S::Value>, TokErr> {
        if self.1 > 0 {
            return Ok(None);
        }
        self.1 = 1;
        match self.0.fault {
            SerdeFault::EndsEarly => Ok(None),
            SerdeFault::AccessError => Err(TokErr("sim: transport error".into())),
            _ => seed.deserialize(KeyDe(self.0.pres)).map(Some),
        }
    }
    fn next_value_seed<S: DeserializeSeed<'de>>(&mut self, seed: S) -> Result<S::Value, TokErr> {
        if self.0.fault == SerdeFault::ValueError {
            return Err(TokErr("sim: transport error".into()));
        }
        seed.deserialize(IntDe { width: self.0.width, signed: self.0.signed, bits: self.0.bits, widened: self.0.pres == Pres::MapWidened })
    }
}

impl<'de, 'a> Deserializer<'de> for &'a mut TokDe {
    type Error = TokErr;
    fn is_human_readable(&self) -> bool {
        self.hr
    }
    fn deserialize_any<V: Visitor<'de>>(self, _: V) -> Result<V::Value, TokErr> {
        Err(TokErr("unexpected deserializer call (not deserialize_struct)".into()))
    }
    fn deserialize_struct<V: Visitor<'de>>(self, name: &'static str, fields: &'static [&'static str], v: V) -> Result<V::Value, TokErr> {
        self.asked = Some((name.to_string(), fields.iter().map(|s| s.to_string()).collect()));
        match self.pres {
            p if p.is_seq() => v.visit_seq(OneSeq(self, false)),
            _ => v.visit_map(OneMap(self, 0)),
        }
    }
    serde::forward_to_deserialize_any! {
        bool i8 i16 i32 i64 i128 u8 u16 u32 u64 u128 f32 f64 char str string bytes byte_buf option unit
        unit_struct newtype_struct seq tuple tuple_struct map enum identifier ignored_any
    }
}

// ------------------------------------------------------------------ real formats, differential twin

#[derive(serde::Serialize, serde::Deserialize, Clone, Copy)]
struct Twin<I> {
    bits: I,
}

/// Transparent adapter that routes serde through the real `Wrapping<F>` impls.
struct W<T>(T);
impl<T: Lay> Serialize for W<T> {
    fn serialize<S: Serializer>(&self, s: S) -> Result<S::Ok, S::Error> {
        self.0.w_serialize(s)
    }
}
impl<'de, T: Lay> serde::Deserialize<'de> for W<T> {
    fn deserialize<D: Deserializer<'de>>(d: D) -> Result<Self, D::Error> {
        T::w_deserialize(d).map(W)
    }
    fn deserialize_in_place<D: Deserializer<'de>>(d: D, place: &mut Self) -> Result<(), D::Error> {
        T::w_deserialize_in_place(d, &mut place.0)
    }
}

/// A document with several values, the way application structs hold them: a list, an optional, a
/// value behind an untagged enum (which serde reads through its buffered `Content`: owned keys, integers
/// as u64/i64 only), a plain field after them (so that a value that takes too much or too little of the
/// stream shows), and a foreign field.
#[derive(serde::Serialize, serde::Deserialize)]
struct Doc<X> {
    items: Vec<X>,
    opt: Option<X>,
    any: Untagged<X>,
    last: X,
    tag: u8,
}
#[derive(serde::Serialize, serde::Deserialize)]
#[serde(untagged)]
enum Untagged<X> {
    One(X),
}
fn doc_of<X: Copy>(v: [X; 4], tag: u8) -> Doc<X> {
    let [a, b, c, d] = v;
    Doc { items: vec![a, b], opt: Some(c), any: Untagged::One(d), last: a, tag }
}
fn doc_vals<X>(d: Doc<X>, tb: impl Fn(X) -> u128) -> Vec<u128> {
    let mut v: Vec<u128> = Vec::new();
    let tag = d.tag;
    v.extend(d.items.into_iter().map(&tb));
    v.push(u128::MAX);
    v.extend(d.opt.into_iter().map(&tb));
    v.push(u128::MAX);
    let Untagged::One(x) = d.any;
    v.push(tb(x));
    v.push(tb(d.last));
    v.push(tag as u128);
    v
}
const DOC_TAG: u8 = 0xa7;
impl<T: Lay> Clone for W<T> {
    fn clone(&self) -> Self {
        W(self.0)
    }
}
impl<T: Lay> Copy for W<T> {}

fn doc_json<T: Lay>(v: &[u128; 4], wrapping: bool) -> (Result<String, String>, Result<String, String>) {
    let e = |e: serde_json::Error| e.to_string();
    let lib = if wrapping { serde_json::to_string(&doc_of(v.map(|b| W(T::fb(b))), DOC_TAG)).map_err(e) } else { serde_json::to_string(&doc_of(v.map(T::fb), DOC_TAG)).map_err(e) };
    let twin = serde_json::to_string(&doc_of(v.map(|b| Twin { bits: <T::SInt as Elem>::fb(b) }), DOC_TAG)).map_err(e);
    (lib, twin)
}
fn doc_unjson<T: Lay>(s: &str, wrapping: bool) -> (Result<Vec<u128>, String>, Result<Vec<u128>, String>) {
    let e = |e: serde_json::Error| e.to_string();
    let lib = if wrapping { serde_json::from_str::<Doc<W<T>>>(s).map(|d| doc_vals(d, |x| x.0.tb())).map_err(e) } else { serde_json::from_str::<Doc<T>>(s).map(|d| doc_vals(d, |x| x.tb())).map_err(e) };
    let twin = serde_json::from_str::<Doc<Twin<T::SInt>>>(s).map(|d| doc_vals(d, |x| x.bits.tb())).map_err(e);
    (lib, twin)
}
fn doc_cbor<T: Lay>(v: &[u128; 4], wrapping: bool) -> (Result<Vec<u8>, String>, Result<Vec<u8>, String>) {
    let e = |e: serde_cbor::Error| e.to_string();
    let lib = if wrapping { serde_cbor::to_vec(&doc_of(v.map(|b| W(T::fb(b))), DOC_TAG)).map_err(e) } else { serde_cbor::to_vec(&doc_of(v.map(T::fb), DOC_TAG)).map_err(e) };
    let twin = serde_cbor::to_vec(&doc_of(v.map(|b| Twin { bits: <T::SInt as Elem>::fb(b) }), DOC_TAG)).map_err(e);
    (lib, twin)
}
fn doc_uncbor<T: Lay>(b: &[u8], wrapping: bool) -> (Result<Vec<u128>, String>, Result<Vec<u128>, String>) {
    let e = |e: serde_cbor::Error| e.to_string();
    let lib = if wrapping { serde_cbor::from_slice::<Doc<W<T>>>(b).map(|d| doc_vals(d, |x| x.0.tb())).map_err(e) } else { serde_cbor::from_slice::<Doc<T>>(b).map(|d| doc_vals(d, |x| x.tb())).map_err(e) };
    let twin = serde_cbor::from_slice::<Doc<Twin<T::SInt>>>(b).map(|d| doc_vals(d, |x| x.bits.tb())).map_err(e);
    (lib, twin)
}

// ------------------------------------------------------------------ per-layout entry points


fn ser<T: Lay>(bits: u128, wrapping: bool, hr: bool) -> Result<Vec<Tok>, String> {
    let mut toks = Vec::new();
    let v = T::fb(bits);
    let r = if wrapping { v.w_serialize(TokSer(&mut toks, hr)) } else { v.serialize(TokSer(&mut toks, hr)) };
    r.map(|_| toks).map_err(|e| e.0)
}
fn de<T: Lay>(bits: u128, wrapping: bool, pres: Pres, fault: SerdeFault, hr: bool, in_place: bool) -> (Result<u128, String>, Option<(String, Vec<String>)>) {
    let mut d = TokDe { pres, fault, width: T::W, signed: T::SIGNED, bits, asked: None, hr };
    if in_place {
        // the slot already holds a value (what `Vec<T>::deserialize_in_place` does with reused elements)
        let junk = !bits & if T::W == 128 { u128::MAX } else { (1u128 << T::W) - 1 };
        let r = if wrapping {
            let mut place = W(T::fb(junk));
            <W<T> as serde::Deserialize>::deserialize_in_place(&mut d, &mut place).map(|_| place.0.tb())
        } else {
            let mut place = T::fb(junk);
            <T as serde::Deserialize>::deserialize_in_place(&mut d, &mut place).map(|_| place.tb())
        };
        return (r.map_err(|e| e.0), d.asked);
    }
    let r = if wrapping {
        T::w_deserialize(&mut d).map(|v| v.tb())
    } else {
        <T as serde::Deserialize>::deserialize(&mut d).map(|v| v.tb())
    };
    (r.map_err(|e| e.0), d.asked)
}
fn json<T: Lay>(bits: u128, wrapping: bool) -> Result<String, String> {
    let v = T::fb(bits);
    if wrapping { serde_json::to_string(&W(v)) } else { serde_json::to_string(&v) }.map_err(|e| e.to_string())
}
fn json_twin<T: Lay>(bits: u128) -> Result<String, String> {
    serde_json::to_string(&Twin { bits: <T::SInt as Elem>::fb(bits) }).map_err(|e| e.to_string())
}
fn unjson<T: Lay>(s: &str, wrapping: bool) -> Result<u128, String> {
    if wrapping {
        serde_json::from_str::<W<T>>(s).map(|w| w.0.tb())
    } else {
        serde_json::from_str::<T>(s).map(|v| v.tb())
    }
    .map_err(|e| e.to_string())
}
fn unjson_reader<T: Lay>(s: &str, wrapping: bool) -> Result<u128, String> {
    if wrapping {
        serde_json::from_reader::<_, W<T>>(s.as_bytes()).map(|w| w.0.tb())
    } else {
        serde_json::from_reader::<_, T>(s.as_bytes()).map(|v| v.tb())
    }
    .map_err(|e| e.to_string())
}
fn unjson_twin<T: Lay>(s: &str) -> Result<u128, String> {
    serde_json::from_str::<Twin<T::SInt>>(s).map(|t| t.bits.tb()).map_err(|e| e.to_string())
}
fn cbor<T: Lay>(bits: u128, wrapping: bool) -> Result<Vec<u8>, String> {
    let v = T::fb(bits);
    if wrapping { serde_cbor::to_vec(&W(v)) } else { serde_cbor::to_vec(&v) }.map_err(|e| e.to_string())
}
fn cbor_twin<T: Lay>(bits: u128) -> Result<Vec<u8>, String> {
    serde_cbor::to_vec(&Twin { bits: <T::SInt as Elem>::fb(bits) }).map_err(|e| e.to_string())
}
fn uncbor<T: Lay>(b: &[u8], wrapping: bool) -> Result<u128, String> {
    if wrapping {
        serde_cbor::from_slice::<W<T>>(b).map(|w| w.0.tb())
    } else {
        serde_cbor::from_slice::<T>(b).map(|v| v.tb())
    }
    .map_err(|e| e.to_string())
}
fn uncbor_twin<T: Lay>(b: &[u8]) -> Result<u128, String> {
    serde_cbor::from_slice::<Twin<T::SInt>>(b).map(|t| t.bits.tb()).map_err(|e| e.to_string())
}

pub fn serde_ops<T: Lay>() -> SerdeOps {
    SerdeOps {
        ser: ser::<T>,
        de: de::<T>,
        doc_json: doc_json::<T>,
        doc_unjson: doc_unjson::<T>,
        doc_cbor: doc_cbor::<T>,
        doc_uncbor: doc_uncbor::<T>,
        json: json::<T>,
        json_twin: json_twin::<T>,
        unjson: unjson::<T>,
        unjson_twin: unjson_twin::<T>,
        unjson_reader: unjson_reader::<T>,
        cbor: cbor::<T>,
        cbor_twin: cbor_twin::<T>,
        uncbor: uncbor::<T>,
        uncbor_twin: uncbor_twin::<T>,
    }
}

}
