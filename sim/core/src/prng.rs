//! The single source of randomness: one SplitMix64 stream per run, derived
//! from (VERIF_SEED, run index). Never drawn from in logging paths.

#[derive(Clone, Debug)]
pub struct Rng(pub u64);

#[inline]
pub fn mix(mut z: u64) -> u64 {
    z = (z ^ (z >> 30)).wrapping_mul(0xBF58_476D_1CE4_E5B9);
    z = (z ^ (z >> 27)).wrapping_mul(0x94D0_49BB_1331_11EB);
    z ^ (z >> 31)
}

impl Rng {
    /// Stream for run `run` of batch seed `seed`.
    pub fn for_run(seed: u64, run: u64) -> Rng {
        let a = mix(seed.wrapping_add(0x9E37_79B9_7F4A_7C15));
        let b = mix(run.wrapping_mul(0xD134_2543_DE82_EF95).wrapping_add(0x2545_F491_4F6C_DD1D));
        Rng(mix(a ^ b.rotate_left(17)))
    }
    #[inline]
    pub fn next(&mut self) -> u64 {
        self.0 = self.0.wrapping_add(0x9E37_79B9_7F4A_7C15);
        mix(self.0)
    }
    #[inline]
    pub fn below(&mut self, n: u64) -> u64 {
        debug_assert!(n > 0);
        // multiply-shift; bias is irrelevant here and this keeps one draw per choice
        (((self.next() as u128) * (n as u128)) >> 64) as u64
    }
    #[inline]
    pub fn range(&mut self, lo: u64, hi_incl: u64) -> u64 {
        lo + self.below(hi_incl - lo + 1)
    }
    #[inline]
    pub fn chance(&mut self, num: u64, den: u64) -> bool {
        self.below(den) < num
    }
    #[inline]
    pub fn u128(&mut self) -> u128 {
        ((self.next() as u128) << 64) | self.next() as u128
    }
    /// Pick an index among the set bits of `mask` (mask != 0).
    pub fn pick_bit(&mut self, mask: u32) -> u32 {
        let n = mask.count_ones();
        let mut k = self.below(n as u64) as u32;
        for i in 0..32 {
            if mask & (1 << i) != 0 {
                if k == 0 {
                    return i;
                }
                k -= 1;
            }
        }
        unreachable!()
    }
    /// Non-empty random subset of the low `n` bits.
    pub fn subset(&mut self, n: u32) -> u32 {
        let full = if n == 32 { u32::MAX } else { (1u32 << n) - 1 };
        let m = (self.next() as u32) & full;
        if m == 0 {
            1 << self.below(n as u64)
        } else {
            m
        }
    }
}

/// FNV-1a style 64-bit digest over numeric events; order sensitive.
#[derive(Clone, Copy, Debug)]
pub struct Digest(pub u64);
impl Default for Digest {
    fn default() -> Self {
        Digest(0xcbf2_9ce4_8422_2325)
    }
}
impl Digest {
    #[inline]
    pub fn u64(&mut self, v: u64) {
        let mut h = self.0;
        h ^= v;
        h = h.wrapping_mul(0x0000_0100_0000_01B3);
        h ^= h >> 29;
        self.0 = h;
    }
    #[inline]
    pub fn bytes(&mut self, b: &[u8]) {
        self.u64(b.len() as u64);
        for c in b.chunks(8) {
            let mut x = [0u8; 8];
            x[..c.len()].copy_from_slice(c);
            self.u64(u64::from_le_bytes(x));
        }
    }
    pub fn finish(self) -> u64 {
        mix(self.0)
    }
}
