//! The explicit history ("trace") one run executes. A trace is drawn from the
//! PRNG once and then materialised; execution, minimisation and replay read only
//! the trace, never the PRNG.

use crate::seams::{InputMode, IoPlan, Nest, RlMode};
use serde_json::{json, Value};

#[derive(Clone, Copy, Debug, PartialEq, Eq, PartialOrd, Ord, Hash)]
pub enum Shape {
    Bare,
    Arr1,
    Arr3,
    Vec,
    Some,
    None,
    Pair,
    /// `(u8, T, u16)`: the value sits between two foreign fields.
    Tup3,
    /// `Vec<T>` built by successive `EncodeAppend::append_or_new` calls on the stored bytes.
    Append,
    /// `Box<T>`
    Boxed,
    /// a user-defined `#[derive(Encode, Decode)] struct { tag: u8, val: T, opt: Option<T>, tail: u16 }`
    /// (what a pallet storage struct looks like); vals = [val] or [val, opt]
    Rec,
    /// a user-defined derived enum `{ Empty = 0, One(T) = 3, Two { a: T, b: T } = 7 }`; vals.len() picks the variant
    Sum,
}
pub const SHAPES: [Shape; 12] = [
    Shape::Bare,
    Shape::Arr1,
    Shape::Arr3,
    Shape::Vec,
    Shape::Some,
    Shape::None,
    Shape::Pair,
    Shape::Tup3,
    Shape::Append,
    Shape::Boxed,
    Shape::Rec,
    Shape::Sum,
];

#[derive(Clone, Copy, Debug, PartialEq, Eq, PartialOrd, Ord, Hash)]
pub enum Writer {
    Encode,
    EncodeTo,
    UsingEncoded,
    EncodeRef,
    Joiner,
    KeyedVec,
    EncodedSizeThenEncodeTo,
    ToLeBytes,
    ToBeBytesReversed,
    ToNeBytes,
    TraitToLeBytes,
    TraitToBeBytesReversed,
    TraitToNeBytes,
    /// the underlying integer's own `Encode`
    IntegerTwin,
}
pub const WRITERS: [Writer; 14] = [
    Writer::Encode,
    Writer::EncodeTo,
    Writer::UsingEncoded,
    Writer::EncodeRef,
    Writer::Joiner,
    Writer::KeyedVec,
    Writer::EncodedSizeThenEncodeTo,
    Writer::ToLeBytes,
    Writer::ToBeBytesReversed,
    Writer::ToNeBytes,
    Writer::TraitToLeBytes,
    Writer::TraitToBeBytesReversed,
    Writer::TraitToNeBytes,
    Writer::IntegerTwin,
];
impl Writer {
    /// Writers that make sense for container shapes (the byte-view writers are bare-only).
    pub fn container_ok(self) -> bool {
        matches!(
            self,
            Writer::Encode | Writer::EncodeTo | Writer::UsingEncoded | Writer::EncodeRef | Writer::EncodedSizeThenEncodeTo | Writer::IntegerTwin
        )
    }
}

#[derive(Clone, Copy, Debug, PartialEq, Eq, PartialOrd, Ord, Hash)]
pub enum Reader {
    Decode,
    /// `T::skip`: consumes the record without producing a value
    Skip,
    /// `DecodeAll::decode_all` on the rest of the medium (only honoured for the last record)
    DecodeAll,
    /// `DecodeLimit::decode_with_depth_limit(8, ..)`
    DecodeLimit,
    /// `DecodeLimit::decode_all_with_depth_limit(8, ..)` (last record only)
    DecodeAllLimit,
    /// bare only: `<[T; 1]>::decode` — the derived `decode_into` path
    ViaArray1,
    /// bare only: `Box<T>::decode` — `decode_into` into a heap slot
    ViaBox,
    FromLeBytes,
    FromBeBytesReversed,
    FromNeBytes,
    TraitFromLeBytes,
    TraitFromBeBytesReversed,
    TraitFromNeBytes,
    /// the underlying integer's own `Decode`
    IntegerTwin,
    /// hand-written little-endian reader using `read_byte` (stands for a foreign implementation)
    HandLe,
    /// generic decoder driven only by the type's `scale_info::TypeInfo` metadata
    Metadata,
}
pub const READERS: [Reader; 16] = [
    Reader::Decode,
    Reader::Skip,
    Reader::DecodeAll,
    Reader::DecodeLimit,
    Reader::DecodeAllLimit,
    Reader::ViaArray1,
    Reader::ViaBox,
    Reader::FromLeBytes,
    Reader::FromBeBytesReversed,
    Reader::FromNeBytes,
    Reader::TraitFromLeBytes,
    Reader::TraitFromBeBytesReversed,
    Reader::TraitFromNeBytes,
    Reader::IntegerTwin,
    Reader::HandLe,
    Reader::Metadata,
];
impl Reader {
    pub fn container_ok(self) -> bool {
        matches!(
            self,
            Reader::Decode
                | Reader::Skip
                | Reader::DecodeAll
                | Reader::DecodeLimit
                | Reader::DecodeAllLimit
                | Reader::IntegerTwin
                | Reader::Metadata
        )
    }
    pub fn last_only(self) -> bool {
        matches!(self, Reader::DecodeAll | Reader::DecodeAllLimit)
    }
}

#[derive(Clone, Debug, PartialEq, Eq)]
pub struct Record {
    /// index of the writer's layout in the dispatch table
    pub w_lay: u16,
    /// index of the reader's layout (same width; other frac / signedness allowed)
    pub r_lay: u16,
    pub shape: Shape,
    /// element bit patterns, masked to the width; count fixed by the shape
    pub vals: Vec<u128>,
    /// `Append` only: sizes of the successive appends (sum == vals.len())
    pub splits: Vec<u8>,
    pub writer: Writer,
    pub reader: Reader,
}

#[derive(Clone, Debug, PartialEq, Eq, PartialOrd, Ord, Hash)]
pub enum Fault {
    /// fault-free pass
    None,
    /// medium cut at byte t: EOF
    TruncateAt(usize),
    /// bytes at offset >= t raise an I/O error (not EOF)
    IoErrorAt(usize),
    /// bit p (0 = LSB of byte 0) of the medium inverted before anyone reads
    BitFlip(usize),
    /// extra bytes after the last record
    Trailing(Vec<u8>),
    /// the last record (bare) is read by a layout of a wider family: from the reader's side the
    /// stored value is too short. Holds the reader layout index.
    ReaderWider(u16),
    /// a *transient* failure: the one `read` that would run across offset t (strictly inside the range
    /// it asks for) consumes the bytes before t and then fails, as a stream with `read_exact` semantics
    /// does on a timeout or a dropped frame; later reads carry on from t. The bytes consumed by the failed
    /// read are gone, so the decode that issued it must fail (a decoder that quietly asks again completes
    /// the value from bytes that do not belong to it).
    TransientAt(usize),
}
impl Fault {
    pub fn kind(&self) -> usize {
        match self {
            Fault::None => 0,
            Fault::TruncateAt(_) => 1,
            Fault::IoErrorAt(_) => 2,
            Fault::BitFlip(_) => 3,
            Fault::Trailing(_) => 4,
            Fault::ReaderWider(_) => 5,
            Fault::TransientAt(_) => 6,
        }
    }
}
pub const FAULT_KINDS: [&str; 7] = ["none", "truncate_at", "io_error_at", "bit_flip", "trailing", "reader_wider", "transient_error_at"];
/// Input-mode perturbations are counted as fault kinds of their own in the evidence.
pub const MODE_KINDS: [&str; 6] = ["short_read", "eintr", "remaining_len_none", "remaining_len_err", "native_read_byte", "remaining_len_over_reports"];

/// One use of the serde seam: serialise `bits` in layout `lay`, present the result to the real
/// `Deserialize` impl in every presentation and with every stream fault, and through two real formats.
#[derive(Clone, Debug, PartialEq, Eq)]
pub struct SerdeOp {
    pub lay: u16,
    pub bits: u128,
    pub wrapping: bool,
}

#[derive(Clone, Debug, PartialEq, Eq)]
pub struct Trace {
    pub seed: u64,
    pub run: u64,
    pub input: InputMode,
    pub records: Vec<Record>,
    /// faults drawn for this history in addition to the ones the tier enumerates
    pub sampled_faults: Vec<Fault>,
    pub serde: Vec<SerdeOp>,
}

// ------------------------------------------------------------------ JSON

fn hex(v: u128) -> String {
    format!("0x{:x}", v)
}
fn unhex(s: &str) -> Result<u128, String> {
    let t = s.strip_prefix("0x").ok_or_else(|| format!("bad hex {}", s))?;
    u128::from_str_radix(t, 16).map_err(|e| e.to_string())
}
fn name_of<T: std::fmt::Debug>(t: &T) -> String {
    format!("{:?}", t)
}
fn parse_enum<T: std::fmt::Debug + Copy>(all: &[T], s: &str) -> Result<T, String> {
    all.iter().copied().find(|x| format!("{:?}", x) == s).ok_or_else(|| format!("unknown variant {}", s))
}

impl Record {
    pub fn to_json(&self, lay_name: &dyn Fn(u16) -> String) -> Value {
        json!({
            "writer_layout": lay_name(self.w_lay),
            "reader_layout": lay_name(self.r_lay),
            "w_lay": self.w_lay,
            "r_lay": self.r_lay,
            "shape": name_of(&self.shape),
            "vals": self.vals.iter().map(|v| hex(*v)).collect::<Vec<_>>(),
            "splits": self.splits,
            "writer": name_of(&self.writer),
            "reader": name_of(&self.reader),
        })
    }
    pub fn from_json(v: &Value) -> Result<Record, String> {
        let s = |k: &str| v.get(k).and_then(|x| x.as_str()).ok_or_else(|| format!("record.{} missing", k));
        let n = |k: &str| v.get(k).and_then(|x| x.as_u64()).ok_or_else(|| format!("record.{} missing", k));
        let mut vals = Vec::new();
        for x in v.get("vals").and_then(|x| x.as_array()).ok_or("record.vals missing")? {
            vals.push(unhex(x.as_str().ok_or("vals entry")?)?);
        }
        let splits = v
            .get("splits")
            .and_then(|x| x.as_array())
            .map(|a| a.iter().map(|x| x.as_u64().unwrap_or(0) as u8).collect())
            .unwrap_or_default();
        Ok(Record {
            w_lay: n("w_lay")? as u16,
            r_lay: n("r_lay")? as u16,
            shape: parse_enum(&SHAPES, s("shape")?)?,
            vals,
            splits,
            writer: parse_enum(&WRITERS, s("writer")?)?,
            reader: parse_enum(&READERS, s("reader")?)?,
        })
    }
}

impl Fault {
    pub fn to_json(&self) -> Value {
        match self {
            Fault::None => json!({"kind": "none"}),
            Fault::TruncateAt(t) => json!({"kind": "truncate_at", "byte": t}),
            Fault::IoErrorAt(t) => json!({"kind": "io_error_at", "byte": t}),
            Fault::BitFlip(p) => json!({"kind": "bit_flip", "bit": p}),
            Fault::Trailing(b) => json!({"kind": "trailing", "bytes": b}),
            Fault::ReaderWider(l) => json!({"kind": "reader_wider", "r_lay": l}),
            Fault::TransientAt(t) => json!({"kind": "transient_error_at", "byte": t}),
        }
    }
    pub fn from_json(v: &Value) -> Result<Fault, String> {
        let k = v.get("kind").and_then(|x| x.as_str()).ok_or("fault.kind missing")?;
        let n = |f: &str| v.get(f).and_then(|x| x.as_u64()).ok_or_else(|| format!("fault.{} missing", f));
        Ok(match k {
            "none" => Fault::None,
            "truncate_at" => Fault::TruncateAt(n("byte")? as usize),
            "io_error_at" => Fault::IoErrorAt(n("byte")? as usize),
            "bit_flip" => Fault::BitFlip(n("bit")? as usize),
            "trailing" => Fault::Trailing(
                v.get("bytes").and_then(|x| x.as_array()).ok_or("fault.bytes")?.iter().map(|x| x.as_u64().unwrap_or(0) as u8).collect(),
            ),
            "reader_wider" => Fault::ReaderWider(n("r_lay")? as u16),
            "transient_error_at" => Fault::TransientAt(n("byte")? as usize),
            _ => return Err(format!("unknown fault kind {}", k)),
        })
    }
}

pub fn mode_to_json(m: &InputMode) -> Value {
    json!({
        "remaining_len": match m.rl { RlMode::None => "none", RlMode::Exact => "exact", RlMode::Err => "err", RlMode::Over => "over" },
        "native_read_byte": m.native_read_byte,
        "io_reader": m.io.as_ref().map(|p| json!({"chunks": p.chunks, "eintr_mask": p.eintr_mask})),
        "nested_task": m.nest.as_ref().map(|n| json!({"lay": n.lay, "bits": hex(n.bits), "at_seam_call": n.at, "after_the_call_is_served": n.after})),
    })
}
pub fn mode_from_json(v: &Value) -> Result<InputMode, String> {
    let rl = match v.get("remaining_len").and_then(|x| x.as_str()).ok_or("input.remaining_len")? {
        "none" => RlMode::None,
        "exact" => RlMode::Exact,
        "err" => RlMode::Err,
        "over" => RlMode::Over,
        o => return Err(format!("bad remaining_len {}", o)),
    };
    let io = match v.get("io_reader") {
        Some(Value::Null) | None => None,
        Some(p) => Some(IoPlan {
            chunks: p.get("chunks").and_then(|x| x.as_array()).ok_or("io.chunks")?.iter().map(|x| x.as_u64().unwrap_or(1) as u8).collect(),
            eintr_mask: p.get("eintr_mask").and_then(|x| x.as_u64()).ok_or("io.eintr_mask")? as u32,
        }),
    };
    let nest = match v.get("nested_task") {
        Some(Value::Null) | None => None,
        Some(n) => Some(Nest {
            lay: n.get("lay").and_then(|x| x.as_u64()).ok_or("nested_task.lay")? as u16,
            bits: unhex(n.get("bits").and_then(|x| x.as_str()).ok_or("nested_task.bits")?)?,
            at: n.get("at_seam_call").and_then(|x| x.as_u64()).unwrap_or(0) as u8,
            after: n.get("after_the_call_is_served").and_then(|x| x.as_bool()).unwrap_or(false),
        }),
    };
    Ok(InputMode { rl, native_read_byte: v.get("native_read_byte").and_then(|x| x.as_bool()).unwrap_or(false), io, nest })
}

impl Trace {
    pub fn to_json(&self, lay_name: &dyn Fn(u16) -> String) -> Value {
        json!({
            "seed": self.seed,
            "run": self.run,
            "input": mode_to_json(&self.input),
            "records": self.records.iter().map(|r| r.to_json(lay_name)).collect::<Vec<_>>(),
            "sampled_faults": self.sampled_faults.iter().map(|f| f.to_json()).collect::<Vec<_>>(),
            "serde": self.serde.iter().map(|o| json!({"lay": o.lay, "layout": lay_name(o.lay), "bits": hex(o.bits), "wrapping": o.wrapping})).collect::<Vec<_>>(),
        })
    }
    pub fn from_json(v: &Value) -> Result<Trace, String> {
        let mut records = Vec::new();
        for r in v.get("records").and_then(|x| x.as_array()).ok_or("trace.records missing")? {
            records.push(Record::from_json(r)?);
        }
        let mut sampled_faults = Vec::new();
        if let Some(a) = v.get("sampled_faults").and_then(|x| x.as_array()) {
            for f in a {
                sampled_faults.push(Fault::from_json(f)?);
            }
        }
        let mut serde = Vec::new();
        if let Some(a) = v.get("serde").and_then(|x| x.as_array()) {
            for o in a {
                serde.push(SerdeOp {
                    lay: o.get("lay").and_then(|x| x.as_u64()).ok_or("serde.lay")? as u16,
                    bits: unhex(o.get("bits").and_then(|x| x.as_str()).ok_or("serde.bits")?)?,
                    wrapping: o.get("wrapping").and_then(|x| x.as_bool()).unwrap_or(false),
                });
            }
        }
        Ok(Trace {
            seed: v.get("seed").and_then(|x| x.as_u64()).unwrap_or(0),
            run: v.get("run").and_then(|x| x.as_u64()).unwrap_or(0),
            input: mode_from_json(v.get("input").ok_or("trace.input missing")?)?,
            records,
            sampled_faults,
            serde,
        })
    }
}
