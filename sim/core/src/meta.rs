//! A foreign implementation that knows nothing about substrate-fixed except the
//! `scale_info::TypeInfo` metadata the type publishes (what polkadot-js / subxt
//! style clients do): it walks the portable type registry and reads the bytes
//! the metadata says are there.

use crate::lay::Lay;
use crate::seams::SimInput;
use crate::trace::Shape;
use codec::{Compact, Decode, Error, Input};
use scale_info::{form::PortableForm, MetaType, PortableRegistry, Registry, TypeDef, TypeDefPrimitive};

fn prim_width(p: &TypeDefPrimitive) -> Option<(usize, bool)> {
    Some(match p {
        TypeDefPrimitive::U8 => (1, false),
        TypeDefPrimitive::U16 => (2, false),
        TypeDefPrimitive::U32 => (4, false),
        TypeDefPrimitive::U64 => (8, false),
        TypeDefPrimitive::U128 => (16, false),
        TypeDefPrimitive::I8 => (1, true),
        TypeDefPrimitive::I16 => (2, true),
        TypeDefPrimitive::I32 => (4, true),
        TypeDefPrimitive::I64 => (8, true),
        TypeDefPrimitive::I128 => (16, true),
        TypeDefPrimitive::Bool => (1, false),
        _ => return None,
    })
}

fn walk<I: Input>(reg: &PortableRegistry, id: u32, inp: &mut I, out: &mut Vec<u128>, depth: u32) -> Result<(), Error> {
    if depth > 16 {
        return Err("metadata: too deep".into());
    }
    let ty = reg.resolve(id).ok_or("metadata: dangling type id")?;
    match &ty.type_def {
        TypeDef::Composite(c) => {
            for f in c.fields.iter() {
                walk(reg, f.ty.id, inp, out, depth + 1)?;
            }
        }
        TypeDef::Tuple(t) => {
            for f in t.fields.iter() {
                walk(reg, f.id, inp, out, depth + 1)?;
            }
        }
        TypeDef::Array(a) => {
            for _ in 0..a.len {
                walk(reg, a.type_param.id, inp, out, depth + 1)?;
            }
        }
        TypeDef::Sequence(s) => {
            let n = Compact::<u32>::decode(inp)?.0;
            for _ in 0..n {
                walk(reg, s.type_param.id, inp, out, depth + 1)?;
            }
        }
        TypeDef::Variant(v) => {
            let idx = inp.read_byte()?;
            let var = v.variants.iter().find(|x| x.index == idx).ok_or("metadata: unknown variant index")?;
            for f in var.fields.iter() {
                walk(reg, f.ty.id, inp, out, depth + 1)?;
            }
        }
        TypeDef::Primitive(p) => {
            let (wb, _) = prim_width(p).ok_or("metadata: unsupported primitive")?;
            let mut acc = 0u128;
            for i in 0..wb {
                acc |= (inp.read_byte()? as u128) << (8 * i);
            }
            out.push(acc);
        }
        TypeDef::Compact(_) => {
            let v = Compact::<u128>::decode(inp)?.0;
            out.push(v);
        }
        TypeDef::BitSequence(_) => return Err("metadata: bit sequence unsupported".into()),
    }
    Ok(())
}

fn registry_for(meta: MetaType) -> (PortableRegistry, u32) {
    let mut reg = Registry::new();
    let id = reg.register_type(&meta).id;
    (PortableRegistry::from(reg), id)
}

/// One representative of every family at two fractional-bit counts (none, half the width), with the
/// primitive each must bottom out in. A runtime publishes *one* registry for all its types, so a
/// layout's metadata is never alone in it: the registry interns types by `TypeInfo::Identity`, and two
/// types that claim the same identity share one entry (whichever came first).
fn family_reps() -> Vec<(MetaType, &'static str)> {
    use substrate_fixed::types::extra::{U0, U16, U32, U4, U64, U8};
    use substrate_fixed::{FixedI128, FixedI16, FixedI32, FixedI64, FixedI8, FixedU128, FixedU16, FixedU32, FixedU64, FixedU8};
    vec![
        (MetaType::new::<FixedI8<U0>>(), "I8"),
        (MetaType::new::<FixedI8<U4>>(), "I8"),
        (MetaType::new::<FixedI16<U0>>(), "I16"),
        (MetaType::new::<FixedI16<U8>>(), "I16"),
        (MetaType::new::<FixedI32<U0>>(), "I32"),
        (MetaType::new::<FixedI32<U16>>(), "I32"),
        (MetaType::new::<FixedI64<U0>>(), "I64"),
        (MetaType::new::<FixedI64<U32>>(), "I64"),
        (MetaType::new::<FixedI128<U0>>(), "I128"),
        (MetaType::new::<FixedI128<U64>>(), "I128"),
        (MetaType::new::<FixedU8<U0>>(), "U8"),
        (MetaType::new::<FixedU8<U4>>(), "U8"),
        (MetaType::new::<FixedU16<U0>>(), "U16"),
        (MetaType::new::<FixedU16<U8>>(), "U16"),
        (MetaType::new::<FixedU32<U0>>(), "U32"),
        (MetaType::new::<FixedU32<U16>>(), "U32"),
        (MetaType::new::<FixedU64<U0>>(), "U64"),
        (MetaType::new::<FixedU64<U32>>(), "U64"),
        (MetaType::new::<FixedU128<U0>>(), "U128"),
        (MetaType::new::<FixedU128<U64>>(), "U128"),
        // and what else a runtime's registry holds: the primitives themselves
        (MetaType::new::<i64>(), "I64"),
        (MetaType::new::<u128>(), "U128"),
    ]
}

/// A registry that already holds every family (registered in the order given by `rot`), then `meta`.
fn shared_registry_for(meta: MetaType, meta_first: bool, rot: usize) -> (PortableRegistry, u32, Vec<(u32, &'static str)>) {
    let reps = family_reps();
    let mut reg = Registry::new();
    let mut id = 0;
    if meta_first {
        id = reg.register_type(&meta).id;
    }
    let mut ids = Vec::new();
    for k in 0..reps.len() {
        let (m, want) = &reps[(k + rot) % reps.len()];
        ids.push((reg.register_type(m).id, *want));
    }
    if !meta_first {
        id = reg.register_type(&meta).id;
    }
    (PortableRegistry::from(reg), id, ids)
}

/// The registry the foreign reader works from: every family first (in an order that depends on the
/// width, so that each family is sometimes the first of its kind), then the type it is asked to read.
/// Building it costs far more than a decode and a history reads the same record under many faults, so
/// the last few are kept per thread (keyed by the Rust type and shape, never by `Identity`).
fn reader_registry_for(key: (std::any::TypeId, u8), meta: MetaType, rot: usize) -> std::rc::Rc<(PortableRegistry, u32)> {
    use std::cell::RefCell;
    use std::rc::Rc;
    thread_local! {
        static RECENT: RefCell<(usize, Vec<((std::any::TypeId, u8), Rc<(PortableRegistry, u32)>)>)> = RefCell::new((0, Vec::new()));
    }
    RECENT.with(|c| {
        let mut c = c.borrow_mut();
        if let Some((_, r)) = c.1.iter().find(|(k, _)| *k == key) {
            return r.clone();
        }
        let (reg, id, _) = shared_registry_for(meta, false, rot);
        let r = Rc::new((reg, id));
        if c.1.len() < 24 {
            c.1.push((key, r.clone()));
        } else {
            let at = c.0 % 24;
            c.1[at] = (key, r.clone());
            c.0 += 1;
        }
        r
    })
}

/// Decode a record of `shape` over `T` using nothing but published metadata.
pub fn decode_by_metadata<T: Lay>(shape: Shape, inp: &mut SimInput) -> Result<Vec<u128>, Error> {
    let meta = match shape {
        Shape::Bare => MetaType::new::<T>(),
        Shape::Arr1 => MetaType::new::<[T; 1]>(),
        Shape::Arr3 => MetaType::new::<[T; 3]>(),
        Shape::Vec | Shape::Append => MetaType::new::<Vec<T>>(),
        Shape::Some | Shape::None => MetaType::new::<Option<T>>(),
        Shape::Pair => MetaType::new::<(T, T)>(),
        Shape::Tup3 => MetaType::new::<(u8, T, u16)>(),
        Shape::Boxed => MetaType::new::<Box<T>>(),
        Shape::Rec => MetaType::new::<crate::lay::Rec<T>>(),
        Shape::Sum => MetaType::new::<crate::lay::Sum<T>>(),
    };
    // the foreign reader sees the runtime's one registry, in which this type is not alone
    let rid = reader_registry_for((std::any::TypeId::of::<T>(), shape as u8), meta, T::WB);
    let mut out = Vec::new();
    walk(&rid.0, rid.1, inp, &mut out, 0)?;
    if shape == Shape::Tup3 && out.len() == 3 {
        // same order as the codec reader reports: value, head, tail
        out.swap(0, 1);
    }
    if shape == Shape::Rec && out.len() >= 3 {
        // wire order is tag, val, (opt), tail; the codec reader reports val, (opt), tag, tail
        let tag = out.remove(0);
        let at = out.len() - 1;
        out.insert(at, tag);
    }
    Ok(out)
}

fn leaves(reg: &PortableRegistry, id: u32, out: &mut Vec<String>, depth: u32) -> Result<(), String> {
    if depth > 16 {
        return Err(format!("the published metadata does not bottom out in a primitive (type #{} refers back to itself or nests deeper than 16 levels)", id));
    }
    let ty = reg.resolve(id).ok_or("dangling type id")?;
    match &ty.type_def {
        TypeDef::Composite(c) => {
            for f in c.fields.iter() {
                leaves(reg, f.ty.id, out, depth + 1)?;
            }
        }
        TypeDef::Tuple(t) => {
            for f in t.fields.iter() {
                leaves(reg, f.id, out, depth + 1)?;
            }
        }
        TypeDef::Primitive(p) => out.push(format!("{:?}", p)),
        other => out.push(format!("non-plain:{}", kind_name(other))),
    }
    Ok(())
}

fn kind_name(t: &TypeDef<PortableForm>) -> &'static str {
    match t {
        TypeDef::Composite(_) => "composite",
        TypeDef::Variant(_) => "variant",
        TypeDef::Sequence(_) => "sequence",
        TypeDef::Array(_) => "array",
        TypeDef::Tuple(_) => "tuple",
        TypeDef::Primitive(_) => "primitive",
        TypeDef::Compact(_) => "compact",
        TypeDef::BitSequence(_) => "bitsequence",
    }
}

/// M1: the published metadata describes exactly one plain integer of the family's
/// own width and signedness (so a metadata-driven client reads the plain bits).
pub fn check_metadata<T: Lay>() -> Result<(), String> {
    // the verdict is a function of the type alone: evaluated once per layout and thread
    use std::cell::RefCell;
    use std::collections::BTreeMap;
    thread_local! {
        static SEEN: RefCell<BTreeMap<std::any::TypeId, Result<(), String>>> = RefCell::new(BTreeMap::new());
    }
    let key = std::any::TypeId::of::<T>();
    if let Some(r) = SEEN.with(|s| s.borrow().get(&key).cloned()) {
        return r;
    }
    let r = check_metadata_uncached::<T>();
    SEEN.with(|s| s.borrow_mut().insert(key, r.clone()));
    r
}

fn check_metadata_uncached<T: Lay>() -> Result<(), String> {
    let (reg, id) = registry_for(MetaType::new::<T>());
    let mut l = Vec::new();
    leaves(&reg, id, &mut l, 0)?;
    let want = format!("{}{}", if T::SIGNED { "I" } else { "U" }, T::W);
    if l.len() != 1 || l[0] != want {
        return Err(format!("metadata leaves {:?}, want exactly [{}]", l, want));
    }
    // the same in a registry shared with every other family, registered before and after this type
    for (meta_first, rot) in [(false, 0usize), (true, 0), (false, 7)] {
        let (reg, id, others) = shared_registry_for(MetaType::new::<T>(), meta_first, rot);
        let mut l = Vec::new();
        leaves(&reg, id, &mut l, 0)?;
        if l.len() != 1 || l[0] != want {
            return Err(format!("in a registry shared with the other families (registered {} this type) the metadata leaves {:?}, want exactly [{}]", if meta_first { "after" } else { "before" }, l, want));
        }
        for (oid, owant) in others {
            let mut l = Vec::new();
            leaves(&reg, oid, &mut l, 0)?;
            if l.len() != 1 || l[0] != owant {
                return Err(format!("registering this type {} the other families changes what a {} family member resolves to: leaves {:?}, want [{}]", if meta_first { "before" } else { "after" }, owant, l, owant));
            }
        }
    }
    Ok(())
}
