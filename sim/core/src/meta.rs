//! A foreign implementation that knows nothing about substrate-fixed except the
//! `scale_info::TypeInfo` metadata the type publishes (what polkadot-js / subxt
//! style clients do): it walks the portable type registry and reads the bytes
//! the metadata says are there.

use crate::lay::Lay;
use crate::seams::SimInput;
use crate::trace::Shape;
use codec::{Compact, Decode, Error, Input};
use scale_info::{form::PortableForm, MetaType, PortableRegistry, Registry, TypeDef, TypeDefPrimitive};

fn prim_width(p: &TypeDefPrimitive) -> Option<(usize, bool)> {
    Some(match p {
        TypeDefPrimitive::U8 => (1, false),
        TypeDefPrimitive::U16 => (2, false),
        TypeDefPrimitive::U32 => (4, false),
        TypeDefPrimitive::U64 => (8, false),
        TypeDefPrimitive::U128 => (16, false),
        TypeDefPrimitive::I8 => (1, true),
        TypeDefPrimitive::I16 => (2, true),
        TypeDefPrimitive::I32 => (4, true),
        TypeDefPrimitive::I64 => (8, true),
        TypeDefPrimitive::I128 => (16, true),
        TypeDefPrimitive::Bool => (1, false),
        _ => return None,
    })
}

fn walk<I: Input>(reg: &PortableRegistry, id: u32, inp: &mut I, out: &mut Vec<u128>, depth: u32) -> Result<(), Error> {
    if depth > 16 {
        return Err("metadata: too deep".into());
    }
    let ty = reg.resolve(id).ok_or("metadata: dangling type id")?;
    match &ty.type_def {
        TypeDef::Composite(c) => {
            for f in c.fields.iter() {
                walk(reg, f.ty.id, inp, out, depth + 1)?;
            }
        }
        TypeDef::Tuple(t) => {
            for f in t.fields.iter() {
                walk(reg, f.id, inp, out, depth + 1)?;
            }
        }
        TypeDef::Array(a) => {
            for _ in 0..a.len {
                walk(reg, a.type_param.id, inp, out, depth + 1)?;
            }
        }
        TypeDef::Sequence(s) => {
            let n = Compact::<u32>::decode(inp)?.0;
            for _ in 0..n {
                walk(reg, s.type_param.id, inp, out, depth + 1)?;
            }
        }
        TypeDef::Variant(v) => {
            let idx = inp.read_byte()?;
            let var = v.variants.iter().find(|x| x.index == idx).ok_or("metadata: unknown variant index")?;
            for f in var.fields.iter() {
                walk(reg, f.ty.id, inp, out, depth + 1)?;
            }
        }
        TypeDef::Primitive(p) => {
            let (wb, _) = prim_width(p).ok_or("metadata: unsupported primitive")?;
            let mut acc = 0u128;
            for i in 0..wb {
                acc |= (inp.read_byte()? as u128) << (8 * i);
            }
            out.push(acc);
        }
        TypeDef::Compact(_) => {
            let v = Compact::<u128>::decode(inp)?.0;
            out.push(v);
        }
        TypeDef::BitSequence(_) => return Err("metadata: bit sequence unsupported".into()),
    }
    Ok(())
}

fn registry_for(meta: MetaType) -> (PortableRegistry, u32) {
    let mut reg = Registry::new();
    let id = reg.register_type(&meta).id;
    (PortableRegistry::from(reg), id)
}

/// Decode a record of `shape` over `T` using nothing but published metadata.
pub fn decode_by_metadata<T: Lay>(shape: Shape, inp: &mut SimInput) -> Result<Vec<u128>, Error> {
    let meta = match shape {
        Shape::Bare => MetaType::new::<T>(),
        Shape::Arr1 => MetaType::new::<[T; 1]>(),
        Shape::Arr3 => MetaType::new::<[T; 3]>(),
        Shape::Vec | Shape::Append => MetaType::new::<Vec<T>>(),
        Shape::Some | Shape::None => MetaType::new::<Option<T>>(),
        Shape::Pair => MetaType::new::<(T, T)>(),
        Shape::Tup3 => MetaType::new::<(u8, T, u16)>(),
        Shape::Boxed => MetaType::new::<Box<T>>(),
        Shape::Rec => MetaType::new::<crate::lay::Rec<T>>(),
        Shape::Sum => MetaType::new::<crate::lay::Sum<T>>(),
    };
    let (reg, id) = registry_for(meta);
    let mut out = Vec::new();
    walk(&reg, id, inp, &mut out, 0)?;
    if shape == Shape::Tup3 && out.len() == 3 {
        // same order as the codec reader reports: value, head, tail
        out.swap(0, 1);
    }
    if shape == Shape::Rec && out.len() >= 3 {
        // wire order is tag, val, (opt), tail; the codec reader reports val, (opt), tag, tail
        let tag = out.remove(0);
        let at = out.len() - 1;
        out.insert(at, tag);
    }
    Ok(out)
}

fn leaves(reg: &PortableRegistry, id: u32, out: &mut Vec<String>, depth: u32) -> Result<(), String> {
    if depth > 16 {
        return Err(format!("the published metadata does not bottom out in a primitive (type #{} refers back to itself or nests deeper than 16 levels)", id));
    }
    let ty = reg.resolve(id).ok_or("dangling type id")?;
    match &ty.type_def {
        TypeDef::Composite(c) => {
            for f in c.fields.iter() {
                leaves(reg, f.ty.id, out, depth + 1)?;
            }
        }
        TypeDef::Tuple(t) => {
            for f in t.fields.iter() {
                leaves(reg, f.id, out, depth + 1)?;
            }
        }
        TypeDef::Primitive(p) => out.push(format!("{:?}", p)),
        other => out.push(format!("non-plain:{}", kind_name(other))),
    }
    Ok(())
}

fn kind_name(t: &TypeDef<PortableForm>) -> &'static str {
    match t {
        TypeDef::Composite(_) => "composite",
        TypeDef::Variant(_) => "variant",
        TypeDef::Sequence(_) => "sequence",
        TypeDef::Array(_) => "array",
        TypeDef::Tuple(_) => "tuple",
        TypeDef::Primitive(_) => "primitive",
        TypeDef::Compact(_) => "compact",
        TypeDef::BitSequence(_) => "bitsequence",
    }
}

/// M1: the published metadata describes exactly one plain integer of the family's
/// own width and signedness (so a metadata-driven client reads the plain bits).
pub fn check_metadata<T: Lay>() -> Result<(), String> {
    let (reg, id) = registry_for(MetaType::new::<T>());
    let mut l = Vec::new();
    leaves(&reg, id, &mut l, 0)?;
    let want = format!("{}{}", if T::SIGNED { "I" } else { "U" }, T::W);
    if l.len() != 1 || l[0] != want {
        return Err(format!("metadata leaves {:?}, want exactly [{}]", l, want));
    }
    Ok(())
}
