//! simcore — the simulator-owned seams, the trace model and the monomorphised
//! access paths into the real substrate-fixed / parity-scale-codec / serde code.
pub mod lay;
pub mod meta;
pub mod prng;
pub mod seams;
pub mod serde_tok;
pub mod trace;
