//! The seams the simulator owns: `codec::Output`, `codec::Input`,
//! `std::io::Read` (under `codec::IoReader`). All faults that act on the
//! reading side are raised here, addressed by byte offset in the medium.

use crate::prng::Digest;
#[cfg(feature = "codec-std")]
use codec::IoReader;
use codec::{Error, Input, Output};

/// parity-scale-codec is built with its `std` feature (else: as in a Wasm runtime — no `IoReader`, and
/// `codec::Error` is a field-less struct). Without it the `IoReader` delivery plans are not applied.
pub const CODEC_STD: bool = cfg!(feature = "codec-std");

// ---------------------------------------------------------------- event log

pub mod ev {
    pub const OUT_WRITE: u8 = 1;
    pub const OUT_PUSH: u8 = 2;
    pub const IN_READ_OK: u8 = 10;
    pub const IN_READ_EOF: u8 = 11;
    pub const IN_READ_IOERR: u8 = 12;
    pub const IN_READ_BYTE: u8 = 13;
    pub const IN_REMAINING: u8 = 14;
    pub const IN_DESCEND: u8 = 15;
    pub const IN_ASCEND: u8 = 16;
    pub const IN_ALLOC: u8 = 17;
    pub const RD_READ: u8 = 20;
    pub const RD_EINTR: u8 = 21;
    pub const RD_EOF: u8 = 22;
    pub const RD_HARD: u8 = 23;
    pub const REC_WRITTEN: u8 = 30;
    pub const REC_READ: u8 = 31;
    pub const CHECK_OK: u8 = 32;
    pub const CHECK_FAIL: u8 = 33;
    pub const PASS_BEGIN: u8 = 34;
    pub const PANIC: u8 = 35;
    /// a second task ran to completion while the first was suspended inside a seam call
    pub const NEST: u8 = 36;
    pub fn name(k: u8) -> &'static str {
        match k {
            OUT_WRITE => "out.write",
            OUT_PUSH => "out.push_byte",
            IN_READ_OK => "in.read.ok",
            IN_READ_EOF => "in.read.eof",
            IN_READ_IOERR => "in.read.ioerr",
            IN_READ_BYTE => "in.read_byte",
            IN_REMAINING => "in.remaining_len",
            IN_DESCEND => "in.descend_ref",
            IN_ASCEND => "in.ascend_ref",
            IN_ALLOC => "in.on_before_alloc_mem",
            RD_READ => "io.read",
            RD_EINTR => "io.read.eintr",
            RD_EOF => "io.read.eof",
            RD_HARD => "io.read.error",
            REC_WRITTEN => "record.written",
            REC_READ => "record.read",
            CHECK_OK => "check.ok",
            CHECK_FAIL => "check.FAIL",
            PASS_BEGIN => "pass.begin",
            PANIC => "unwind",
            NEST => "nested.task",
            _ => "?",
        }
    }
}

/// Event log of one execution: always digested, optionally recorded.
/// Logging never draws from the PRNG and never reads a clock.
#[derive(Default)]
pub struct Log {
    pub digest: Digest,
    pub steps: u64,
    pub record: Option<Vec<(u8, u64, u64)>>,
    /// how often each oracle (by check number) was evaluated and held
    pub ok: [u32; 24],
}
impl Log {
    pub fn new(record: bool) -> Log {
        Log { digest: Digest::default(), steps: 0, record: if record { Some(Vec::new()) } else { None }, ok: [0; 24] }
    }
    #[inline]
    pub fn ev(&mut self, kind: u8, a: u64, b: u64) {
        self.digest.u64(kind as u64);
        self.digest.u64(a);
        self.digest.u64(b);
        if kind < ev::REC_WRITTEN {
            self.steps += 1;
        }
        if kind == ev::CHECK_OK && (a as usize) < self.ok.len() {
            self.ok[a as usize] += 1;
        }
        if let Some(r) = self.record.as_mut() {
            if r.len() < 20_000 {
                r.push((kind, a, b));
            }
        }
    }
}

// ---------------------------------------------------------------- Output

/// A second, complete task (encode and decode of another value, usually of another layout) that the
/// simulator runs while the first operation is suspended inside a seam call: cooperative interleaving of
/// two tasks at the only points where the library hands control to its caller (`Input::read`,
/// `Output::write`, the closure of `using_encoded`). The library is stateless, so the second task must
/// not be able to disturb the first, nor the first the second.
#[derive(Clone, Debug, PartialEq, Eq)]
pub struct Nest {
    /// layout of the second task's value
    pub lay: u16,
    pub bits: u128,
    /// index of the seam call (within one record's encode / decode) at which the second task runs
    pub at: u8,
    /// run it after the call has been served (bytes delivered / taken) instead of before
    pub after: bool,
}

/// The second task itself, supplied by the executor (it needs the dispatch table). Returns a
/// description of what went wrong inside the second task, if anything did.
pub type NestHook<'h> = &'h dyn Fn() -> Option<String>;

/// The simulated sink handed to the real `Encode::encode_to`.
pub struct SimOutput<'l> {
    pub buf: Vec<u8>,
    pub log: &'l mut Log,
    pub nest: Option<(u8, bool, NestHook<'l>)>,
    /// seam calls since the record began
    pub calls: u32,
    pub nest_fired: u32,
    pub nest_fail: Option<String>,
}
impl<'l> SimOutput<'l> {
    pub fn new(buf: Vec<u8>, log: &'l mut Log) -> SimOutput<'l> {
        SimOutput { buf, log, nest: None, calls: 0, nest_fired: 0, nest_fail: None }
    }
    #[inline]
    fn fire(&mut self, after: bool) {
        if let Some((at, when, hook)) = self.nest {
            if self.calls == at as u32 && when == after {
                self.nest_fired += 1;
                let r = hook();
                self.log.ev(ev::NEST, self.calls as u64, r.is_some() as u64);
                if self.nest_fail.is_none() {
                    self.nest_fail = r;
                }
            }
        }
    }
}
impl<'l> Output for SimOutput<'l> {
    fn write(&mut self, bytes: &[u8]) {
        self.log.ev(ev::OUT_WRITE, bytes.len() as u64, self.buf.len() as u64);
        // `bytes` may still point into a buffer the library owns (`using_encoded`): the second task
        // runs before they are copied
        self.fire(false);
        self.buf.extend_from_slice(bytes);
        self.fire(true);
        self.calls += 1;
    }
    fn push_byte(&mut self, byte: u8) {
        self.log.ev(ev::OUT_PUSH, byte as u64, self.buf.len() as u64);
        self.fire(false);
        self.buf.push(byte);
        self.fire(true);
        self.calls += 1;
    }
}

// ---------------------------------------------------------------- Input

#[derive(Clone, Copy, Debug, PartialEq, Eq)]
pub enum RlMode {
    /// `remaining_len` returns `Ok(None)` (a stream that cannot tell).
    None,
    /// `remaining_len` returns the exact number of deliverable bytes.
    Exact,
    /// `remaining_len` returns `Err`.
    Err,
    /// `remaining_len` reports 7 bytes more than can be delivered (a stream with padding, a
    /// length taken from an outer frame): pre-checks pass, the reads then decide.
    Over,
}

/// How the bytes are delivered when reading goes through `IoReader<SimRead>`.
#[derive(Clone, Debug, PartialEq, Eq)]
pub struct IoPlan {
    /// Cyclic list of maximum chunk sizes for successive `read` calls (each >= 1).
    pub chunks: Vec<u8>,
    /// Bit i set: the i-th (mod 32) `read` call is answered with `Interrupted`
    /// first (never twice in a row, so `read_exact` always progresses).
    pub eintr_mask: u32,
}

#[derive(Clone, Debug, PartialEq, Eq)]
pub struct InputMode {
    pub rl: RlMode,
    /// Provide a native `read_byte` (true) or leave codec's default that goes through `read`.
    pub native_read_byte: bool,
    /// `Some`: serve every `read` through the real `codec::IoReader` + `read_exact` over `SimRead`.
    pub io: Option<IoPlan>,
    /// `Some`: a second task runs inside one seam call of every record's encode and decode
    pub nest: Option<Nest>,
}
impl InputMode {
    pub fn plain() -> InputMode {
        InputMode { rl: RlMode::Exact, native_read_byte: false, io: None, nest: None }
    }
}

/// `std::io::Read` stub under the real `codec::IoReader`.
pub struct SimRead<'a> {
    pub data: &'a [u8],
    pub pos: usize,
    pub err_from: Option<usize>,
    /// one transient failure: the first `read_exact` that runs across this offset gets the bytes before
    /// it and then an error; cleared once it has fired
    pub transient_at: Option<usize>,
    pub transient_fired: bool,
    /// set by the owning input for the duration of one `Input::read` that runs strictly across the offset
    pub transient_armed: bool,
    pub plan: IoPlan,
    pub calls: u32,
    pub last_was_eintr: bool,
    pub short_reads: u32,
    pub eintrs: u32,
    /// Events raised inside `read`; drained into the owning input's log after each call.
    pub pending: Vec<(u8, u64, u64)>,
}
impl<'a> SimRead<'a> {
    #[inline]
    fn ev(&mut self, k: u8, a: u64, b: u64) {
        self.pending.push((k, a, b));
    }
}
impl<'a> std::io::Read for SimRead<'a> {
    fn read(&mut self, buf: &mut [u8]) -> std::io::Result<usize> {
        let n = self.calls;
        self.calls += 1;
        if !self.last_was_eintr && (self.plan.eintr_mask >> (n % 32)) & 1 == 1 {
            self.last_was_eintr = true;
            self.eintrs += 1;
            let p = self.pos as u64;
            self.ev(ev::RD_EINTR, buf.len() as u64, p);
            return Err(std::io::ErrorKind::Interrupted.into());
        }
        self.last_was_eintr = false;
        let chunk = if self.plan.chunks.is_empty() {
            usize::MAX
        } else {
            (self.plan.chunks[(n as usize) % self.plan.chunks.len()] as usize).max(1)
        };
        let avail = self.data.len() - self.pos;
        let mut k = buf.len().min(chunk).min(avail);
        if let Some(t) = self.transient_at {
            if self.pos == t && self.transient_armed {
                // the bytes before t have been delivered to this read_exact; now it fails, once
                self.transient_at = None;
                self.transient_fired = true;
                let p = self.pos as u64;
                self.ev(ev::RD_HARD, buf.len() as u64, p);
                return Err(std::io::Error::from(if t % 2 == 0 { std::io::ErrorKind::TimedOut } else { std::io::ErrorKind::WouldBlock }));
            }
            if self.pos < t {
                k = k.min(t - self.pos);
            }
        }
        if let Some(e) = self.err_from {
            // bytes at offset >= e cannot be delivered: deliver what lies before, then fail hard
            let before = e.saturating_sub(self.pos);
            if before == 0 && !buf.is_empty() {
                let p = self.pos as u64;
            self.ev(ev::RD_HARD, buf.len() as u64, p);
                return Err(std::io::Error::new(std::io::ErrorKind::Other, "sim: device error"));
            }
            k = k.min(before);
        }
        if k == 0 && !buf.is_empty() {
            let p = self.pos as u64;
            self.ev(ev::RD_EOF, buf.len() as u64, p);
            return Ok(0);
        }
        if k < buf.len() {
            self.short_reads += 1;
        }
        buf[..k].copy_from_slice(&self.data[self.pos..self.pos + k]);
        let p = self.pos as u64;
            self.ev(ev::RD_READ, buf.len() as u64, ((k as u64) << 32) | p);
        self.pos += k;
        Ok(k)
    }
}

/// The simulated source handed to the real `Decode::decode`.
///
/// `data` is the already materialised (truncated / flipped / extended) medium;
/// `err_from` makes every byte at offset >= it undeliverable with an I/O error
/// instead of an end-of-input.
pub struct SimInput<'a> {
    pub data: &'a [u8],
    pub pos: usize,
    pub err_from: Option<usize>,
    pub mode: InputMode,
    pub io: Option<SimRead<'a>>,
    pub depth: i32,
    pub max_depth: i32,
    pub alloc_calls: u32,
    /// total heap budget the decoder asked for through `on_before_alloc_mem`
    pub alloc_bytes: u64,
    /// A read was refused (EOF or error): the injected fault actually fired.
    pub refused: bool,
    /// `remaining_len` answered `Err` (RlMode::Err) at least once: the input itself reported a failure.
    pub rl_err_returned: bool,
    /// one transient failure (see `Fault::TransientAt`); `None` once it has fired
    pub transient_at: Option<usize>,
    pub transient_fired: bool,
    /// the second task (see `Nest`); set by the executor after construction
    pub hook: Option<NestHook<'a>>,
    /// `read` / `read_byte` calls since the record began (reset by the executor per record)
    pub calls: u32,
    pub nest_fired: u32,
    pub nest_fail: Option<String>,
    pub log: Log,
}

impl<'a> SimInput<'a> {
    pub fn new(data: &'a [u8], start: usize, err_from: Option<usize>, mode: InputMode, record: bool) -> SimInput<'a> {
        let mut b = SimInput {
            data,
            pos: start,
            err_from,
            mode,
            io: None,
            depth: 0,
            max_depth: 0,
            alloc_calls: 0,
            alloc_bytes: 0,
            refused: false,
            rl_err_returned: false,
            transient_at: None,
            transient_fired: false,
            hook: None,
            calls: 0,
            nest_fired: 0,
            nest_fail: None,
            log: Log::new(record),
        };
        #[cfg(not(feature = "codec-std"))]
        {
            b.mode.io = None;
        }
        #[cfg(feature = "codec-std")]
        if let Some(plan) = b.mode.io.clone() {
            b.io = Some(SimRead {
                data,
                pos: start,
                err_from,
                transient_at: None,
                transient_fired: false,
                transient_armed: false,
                plan,
                calls: 0,
                last_was_eintr: false,
                short_reads: 0,
                eintrs: 0,
                pending: Vec::new(),
            });
        }
        b
    }
    /// Deliverable bytes from the current position.
    pub fn deliverable(&self) -> usize {
        let end = match self.err_from {
            Some(e) => e.min(self.data.len()),
            None => self.data.len(),
        };
        end.saturating_sub(self.pos)
    }
    /// Move the position (used by readers that take a slice directly).
    pub fn advance(&mut self, n: usize) {
        self.pos += n;
        if let Some(io) = self.io.as_mut() {
            io.pos += n;
        }
    }
    /// Slice view of what remains deliverable (for readers that take `&[u8]`).
    pub fn rest(&self) -> &'a [u8] {
        let end = match self.err_from {
            Some(e) => e.min(self.data.len()),
            None => self.data.len(),
        };
        &self.data[self.pos.min(end)..end]
    }
    #[inline]
    fn fire(&mut self, after: bool) {
        if let (Some(hook), Some(n)) = (self.hook, self.mode.nest.as_ref()) {
            if self.calls == n.at as u32 && n.after == after {
                self.nest_fired += 1;
                let r = hook();
                self.log.ev(ev::NEST, self.calls as u64, r.is_some() as u64);
                if self.nest_fail.is_none() {
                    self.nest_fail = r;
                }
            }
        }
    }
    fn read_inner(&mut self, into: &mut [u8]) -> Result<(), Error> {
        #[cfg(feature = "codec-std")]
        if let Some(io) = self.io.as_mut() {
            // real codec::IoReader + real std read_exact over the SimRead stub
            if let Some(t) = self.transient_at {
                io.transient_at = Some(t);
                io.transient_armed = io.pos < t && t < io.pos + into.len();
            }
            let r = IoReader(&mut *io).read(into);
            io.transient_armed = false;
            if io.transient_fired {
                self.transient_at = None;
                self.transient_fired = true;
            }
            self.pos = io.pos;
            for (k, a, b) in io.pending.drain(..) {
                self.log.ev(k, a, b);
            }
            match &r {
                Ok(()) => self.log.ev(ev::IN_READ_OK, into.len() as u64, self.pos as u64),
                Err(_) => {
                    self.refused = true;
                    self.log.ev(ev::IN_READ_EOF, into.len() as u64, self.pos as u64)
                }
            }
            return r;
        }
        let end = self.pos + into.len();
        if let Some(t) = self.transient_at {
            if self.pos < t && t < end {
                // the bytes before t are consumed by this read, then it fails; later reads carry on from t
                self.transient_at = None;
                self.transient_fired = true;
                self.refused = true;
                self.log.ev(ev::IN_READ_IOERR, into.len() as u64, self.pos as u64);
                self.pos = t;
                // the identity of the error is the input's business; three plausible ones, by offset: what
                // codec itself makes of an EINTR or of a timeout from an `io::Read`, and a text of its own
                #[cfg(feature = "codec-std")]
                return Err(match t % 3 {
                    0 => Error::from(std::io::Error::from(std::io::ErrorKind::Interrupted)),
                    1 => Error::from(std::io::Error::from(std::io::ErrorKind::TimedOut)),
                    _ => "sim: transient i/o failure".into(),
                });
                #[cfg(not(feature = "codec-std"))]
                return Err("sim: transient i/o failure".into());
            }
        }
        if let Some(e) = self.err_from {
            if end > e && !into.is_empty() {
                self.refused = true;
                self.log.ev(ev::IN_READ_IOERR, into.len() as u64, self.pos as u64);
                return Err("sim: i/o error".into());
            }
        }
        if end > self.data.len() {
            self.refused = true;
            self.log.ev(ev::IN_READ_EOF, into.len() as u64, self.pos as u64);
            return Err("sim: end of input".into());
        }
        into.copy_from_slice(&self.data[self.pos..end]);
        self.log.ev(ev::IN_READ_OK, into.len() as u64, self.pos as u64);
        self.pos = end;
        Ok(())
    }
    pub fn io_stats(&self) -> (u32, u32) {
        self.io.as_ref().map(|r| (r.short_reads, r.eintrs)).unwrap_or((0, 0))
    }
}

impl<'a> Input for SimInput<'a> {
    fn remaining_len(&mut self) -> Result<Option<usize>, Error> {
        let d = self.deliverable();
        self.log.ev(ev::IN_REMAINING, self.mode.rl as u64, d as u64);
        match self.mode.rl {
            RlMode::None => Ok(None),
            RlMode::Exact => Ok(Some(d)),
            RlMode::Over => Ok(Some(d + 7)),
            RlMode::Err => {
                self.rl_err_returned = true;
                Err("sim: remaining_len unavailable".into())
            }
        }
    }

    fn read(&mut self, into: &mut [u8]) -> Result<(), Error> {
        self.fire(false);
        let r = self.read_inner(into);
        // `into` may be a buffer the library shares between calls: the second task runs while the
        // delivered bytes sit in it
        self.fire(true);
        self.calls += 1;
        r
    }

    fn read_byte(&mut self) -> Result<u8, Error> {
        if self.mode.native_read_byte && self.io.is_none() {
            self.log.ev(ev::IN_READ_BYTE, 0, self.pos as u64);
            self.fire(false);
            self.calls += 1;
            if let Some(e) = self.err_from {
                if self.pos >= e {
                    self.refused = true;
                    return Err("sim: i/o error".into());
                }
            }
            if self.pos >= self.data.len() {
                self.refused = true;
                return Err("sim: end of input".into());
            }
            let b = self.data[self.pos];
            self.pos += 1;
            Ok(b)
        } else {
            let mut buf = [0u8];
            self.read(&mut buf[..])?;
            Ok(buf[0])
        }
    }

    fn descend_ref(&mut self) -> Result<(), Error> {
        self.depth += 1;
        self.max_depth = self.max_depth.max(self.depth);
        self.log.ev(ev::IN_DESCEND, self.depth as u64, 0);
        Ok(())
    }

    fn ascend_ref(&mut self) {
        self.depth -= 1;
        self.log.ev(ev::IN_ASCEND, self.depth as u64, 0);
    }

    fn on_before_alloc_mem(&mut self, size: usize) -> Result<(), Error> {
        self.alloc_calls += 1;
        self.alloc_bytes = self.alloc_bytes.saturating_add(size as u64);
        self.log.ev(ev::IN_ALLOC, size as u64, 0);
        Ok(())
    }
}
