//! Monomorphised access to every fixed-point layout and its underlying-integer
//! twin. Everything in here calls *real* substrate-fixed / parity-scale-codec
//! code; the only simulator-owned objects are the `SimOutput` / `SimInput`
//! arguments.

use crate::seams::{SimInput, SimOutput};
use crate::trace::{Reader, Shape, Writer};
use codec::{Decode, DecodeAll, DecodeLength, DecodeLimit, Encode, EncodeAppend, Input, Joiner, KeyedVec, MaxEncodedLen, Output};
use substrate_fixed::traits::Fixed;
use substrate_fixed::types::extra::{LeEqU128, LeEqU16, LeEqU32, LeEqU64, LeEqU8};
use substrate_fixed::{FixedI128, FixedI16, FixedI32, FixedI64, FixedI8, FixedU128, FixedU16, FixedU32, FixedU64, FixedU8, Wrapping};

/// Anything that has a SCALE codec and a bit pattern: fixed-point layouts and primitive integers.
pub trait Elem: Copy + Encode + Decode + MaxEncodedLen + 'static {
    const WB: usize;
    fn fb(b: u128) -> Self;
    fn tb(self) -> u128;
}

macro_rules! int_elem {
    ($($I:ty, $U:ty);*) => {$(
        impl Elem for $I {
            const WB: usize = core::mem::size_of::<$I>();
            #[inline] fn fb(b: u128) -> Self { b as $U as $I }
            #[inline] fn tb(self) -> u128 { self as $U as u128 }
        }
    )*};
}
int_elem!(i8, u8; i16, u16; i32, u32; i64, u64; i128, u128; u8, u8; u16, u16; u32, u32; u64, u64; u128, u128);

/// A fixed-point layout (one of the 506 aliases).
pub trait Lay: Elem + Fixed + scale_info::TypeInfo {
    type Int: Elem + scale_info::TypeInfo;
    const W: u32;
    const SIGNED: bool;
    const STRUCT_NAME: &'static str;
    fn int(self) -> Self::Int;
    // inherent byte views
    fn le(self) -> Vec<u8>;
    fn be(self) -> Vec<u8>;
    fn ne(self) -> Vec<u8>;
    fn from_le(b: &[u8]) -> Self;
    fn from_be(b: &[u8]) -> Self;
    fn from_ne(b: &[u8]) -> Self;
    // `Fixed`-trait byte views
    fn tle(self) -> Vec<u8>;
    fn tbe(self) -> Vec<u8>;
    fn tne(self) -> Vec<u8>;
    fn tfrom_le(b: &[u8]) -> Self;
    fn tfrom_be(b: &[u8]) -> Self;
    fn tfrom_ne(b: &[u8]) -> Self;
    // `Fixed`-trait bits
    fn tfb(b: u128) -> Self;
    fn ttb(self) -> u128;
    // Wrapping<F>
    fn wfb(b: u128) -> Wrapping<Self>;
    fn wtb(w: Wrapping<Self>) -> u128;
    /// allocation-free byte-view / bits algebra on one bit pattern, for the lean sweeps: every view equals
    /// the integer's own bytes, every `from_*` inverts it, inherent == `Fixed`-trait, `Wrapping` bits
    fn views_ok(b: u128) -> bool;
}

/// The serde side of a layout; only exists when substrate-fixed is built with its `serde` feature.
#[cfg(feature = "sf-serde")]
pub trait LaySerde: Lay + serde::Serialize + serde::de::DeserializeOwned {
    /// the underlying integer again, with its serde bounds spelled out
    type SInt: Elem + serde::Serialize + serde::de::DeserializeOwned;
    // serde impls of Wrapping<F> exist per family, not generically
    fn w_serialize<S: serde::Serializer>(self, s: S) -> Result<S::Ok, S::Error>;
    fn w_deserialize<'de, D: serde::Deserializer<'de>>(d: D) -> Result<Self, D::Error>;
    fn w_deserialize_in_place<'de, D: serde::Deserializer<'de>>(d: D, place: &mut Self) -> Result<(), D::Error>;
}
#[cfg(feature = "sf-serde")]
pub trait LayAll: LaySerde {}
#[cfg(feature = "sf-serde")]
impl<T: LaySerde> LayAll for T {}
#[cfg(not(feature = "sf-serde"))]
pub trait LayAll: Lay {}
#[cfg(not(feature = "sf-serde"))]
impl<T: Lay> LayAll for T {}

macro_rules! lay_impl {
    ($F:ident, $LeEq:ident, $I:ty, $U:ty, $n:expr, $signed:expr, $name:expr) => {
        impl<Fr: $LeEq + scale_info::TypeInfo + 'static> Elem for $F<Fr> {
            const WB: usize = $n;
            #[inline]
            fn fb(b: u128) -> Self {
                Self::from_bits(b as $U as $I)
            }
            #[inline]
            fn tb(self) -> u128 {
                self.to_bits() as $U as u128
            }
        }
        impl<Fr: $LeEq + scale_info::TypeInfo + 'static> Lay for $F<Fr> {
            type Int = $I;
            const W: u32 = $n * 8;
            const SIGNED: bool = $signed;
            const STRUCT_NAME: &'static str = $name;
            fn int(self) -> $I {
                self.to_bits()
            }
            fn le(self) -> Vec<u8> {
                $F::<Fr>::to_le_bytes(self).to_vec()
            }
            fn be(self) -> Vec<u8> {
                $F::<Fr>::to_be_bytes(self).to_vec()
            }
            fn ne(self) -> Vec<u8> {
                $F::<Fr>::to_ne_bytes(self).to_vec()
            }
            fn from_le(b: &[u8]) -> Self {
                let mut a = [0u8; $n];
                a.copy_from_slice(b);
                $F::<Fr>::from_le_bytes(a)
            }
            fn from_be(b: &[u8]) -> Self {
                let mut a = [0u8; $n];
                a.copy_from_slice(b);
                $F::<Fr>::from_be_bytes(a)
            }
            fn from_ne(b: &[u8]) -> Self {
                let mut a = [0u8; $n];
                a.copy_from_slice(b);
                $F::<Fr>::from_ne_bytes(a)
            }
            fn tle(self) -> Vec<u8> {
                <Self as Fixed>::to_le_bytes(self).to_vec()
            }
            fn tbe(self) -> Vec<u8> {
                <Self as Fixed>::to_be_bytes(self).to_vec()
            }
            fn tne(self) -> Vec<u8> {
                <Self as Fixed>::to_ne_bytes(self).to_vec()
            }
            fn tfrom_le(b: &[u8]) -> Self {
                let mut a = [0u8; $n];
                a.copy_from_slice(b);
                <Self as Fixed>::from_le_bytes(a)
            }
            fn tfrom_be(b: &[u8]) -> Self {
                let mut a = [0u8; $n];
                a.copy_from_slice(b);
                <Self as Fixed>::from_be_bytes(a)
            }
            fn tfrom_ne(b: &[u8]) -> Self {
                let mut a = [0u8; $n];
                a.copy_from_slice(b);
                <Self as Fixed>::from_ne_bytes(a)
            }
            fn tfb(b: u128) -> Self {
                <Self as Fixed>::from_bits(b as $U as $I)
            }
            fn ttb(self) -> u128 {
                <Self as Fixed>::to_bits(self) as $U as u128
            }
            fn wfb(b: u128) -> Wrapping<Self> {
                Wrapping::<Self>::from_bits(b as $U as $I)
            }
            fn wtb(w: Wrapping<Self>) -> u128 {
                w.to_bits() as $U as u128
            }
            #[inline]
            fn views_ok(b: u128) -> bool {
                let u = b as $U;
                let i = u as $I;
                let v = $F::<Fr>::from_bits(i);
                // model bytes by shifting, independent of any byte-order helper
                let mut le = [0u8; $n];
                let mut k = 0;
                while k < $n {
                    le[k] = (u >> (8 * k)) as u8;
                    k += 1;
                }
                let mut be = le;
                be.reverse();
                let ne = if cfg!(target_endian = "little") { le } else { be };
                $F::<Fr>::to_bits(v) == i
                    && $F::<Fr>::to_le_bytes(v) == le
                    && $F::<Fr>::to_be_bytes(v) == be
                    && $F::<Fr>::to_ne_bytes(v) == ne
                    && $F::<Fr>::from_le_bytes(le).to_bits() == i
                    && $F::<Fr>::from_be_bytes(be).to_bits() == i
                    && $F::<Fr>::from_ne_bytes(ne).to_bits() == i
                    && <Self as Fixed>::to_bits(<Self as Fixed>::from_bits(i)) == i
                    && <Self as Fixed>::to_le_bytes(v) == le
                    && <Self as Fixed>::to_be_bytes(v) == be
                    && <Self as Fixed>::to_ne_bytes(v) == ne
                    && <Self as Fixed>::from_le_bytes(le).to_bits() == i
                    && <Self as Fixed>::from_be_bytes(be).to_bits() == i
                    && <Self as Fixed>::from_ne_bytes(ne).to_bits() == i
                    && Wrapping::<Self>::from_bits(i).to_bits() == i
                    && Wrapping(v).to_bits() == i
            }
        }
        #[cfg(feature = "sf-serde")]
        impl<Fr: $LeEq + scale_info::TypeInfo + 'static> LaySerde for $F<Fr> {
            type SInt = $I;
            fn w_serialize<S: serde::Serializer>(self, s: S) -> Result<S::Ok, S::Error> {
                serde::Serialize::serialize(&Wrapping(self), s)
            }
            fn w_deserialize<'de, D: serde::Deserializer<'de>>(d: D) -> Result<Self, D::Error> {
                <Wrapping<Self> as serde::Deserialize>::deserialize(d).map(|w| w.0)
            }
            fn w_deserialize_in_place<'de, D: serde::Deserializer<'de>>(d: D, place: &mut Self) -> Result<(), D::Error> {
                let mut w = Wrapping(*place);
                <Wrapping<Self> as serde::Deserialize>::deserialize_in_place(d, &mut w)?;
                *place = w.0;
                Ok(())
            }
        }
    };
}
lay_impl!(FixedI8, LeEqU8, i8, u8, 1, true, "FixedI8");
lay_impl!(FixedI16, LeEqU16, i16, u16, 2, true, "FixedI16");
lay_impl!(FixedI32, LeEqU32, i32, u32, 4, true, "FixedI32");
lay_impl!(FixedI64, LeEqU64, i64, u64, 8, true, "FixedI64");
lay_impl!(FixedI128, LeEqU128, i128, u128, 16, true, "FixedI128");
lay_impl!(FixedU8, LeEqU8, u8, u8, 1, false, "FixedU8");
lay_impl!(FixedU16, LeEqU16, u16, u16, 2, false, "FixedU16");
lay_impl!(FixedU32, LeEqU32, u32, u32, 4, false, "FixedU32");
lay_impl!(FixedU64, LeEqU64, u64, u64, 8, false, "FixedU64");
lay_impl!(FixedU128, LeEqU128, u128, u128, 16, false, "FixedU128");

// ------------------------------------------------------------------ user-defined containers (derive paths)

/// What a pallet's storage struct looks like: the fixed-point value between foreign fields.
#[derive(Encode, Decode, MaxEncodedLen, scale_info::TypeInfo, Clone, PartialEq, Debug)]
pub struct Rec<T> {
    pub tag: u8,
    pub val: T,
    pub opt: Option<T>,
    pub tail: u16,
}

/// A derived enum with explicit indices.
#[derive(Encode, Decode, MaxEncodedLen, scale_info::TypeInfo, Clone, PartialEq, Debug)]
pub enum Sum<T> {
    #[codec(index = 0)]
    Empty,
    #[codec(index = 3)]
    One(T),
    #[codec(index = 7)]
    Two { a: T, b: T },
}

// ------------------------------------------------------------------ codec-generic paths

pub const KEY_PREFIX: [u8; 3] = [0xAA, 0x55, 0xC3];
pub const DEPTH_LIMIT: u32 = 8;

fn mk<E: Elem>(vals: &[u128]) -> Vec<E> {
    vals.iter().map(|b| E::fb(*b)).collect()
}

/// Encode one value of any `Encode` type through the chosen codec entry point.
fn put<V: Encode + Decode>(v: &V, writer: Writer, out: &mut SimOutput) -> Result<(), String> {
    match writer {
        Writer::Encode => {
            let b = v.encode();
            out.write(&b);
        }
        Writer::EncodeTo | Writer::IntegerTwin => v.encode_to(out),
        Writer::UsingEncoded => v.using_encoded(|s| out.write(s)),
        Writer::EncodeRef => (&v).encode_to(out),
        Writer::Joiner => {
            let b = Vec::<u8>::new().and(v);
            out.write(&b);
        }
        Writer::KeyedVec => {
            let b = v.to_keyed_vec(&KEY_PREFIX);
            if b.len() < 3 || b[..3] != KEY_PREFIX {
                return Err(format!("to_keyed_vec lost its prefix: {:?}", b));
            }
            out.write(&b[3..]);
        }
        Writer::EncodedSizeThenEncodeTo => {
            let n = v.encoded_size();
            let before = out.buf.len();
            v.encode_to(out);
            if out.buf.len() - before != n {
                return Err(format!("encoded_size() = {} but encode_to wrote {} bytes", n, out.buf.len() - before));
            }
        }
        _ => return Err(format!("writer {:?} is not a codec writer", writer)),
    }
    Ok(())
}

pub fn enc_codec<E: Elem>(vals: &[u128], splits: &[u8], shape: Shape, writer: Writer, out: &mut SimOutput) -> Result<(), String> {
    let need = |n: usize| if vals.len() == n { Ok(()) } else { Err(format!("shape {:?} needs {} values, trace has {}", shape, n, vals.len())) };
    match shape {
        Shape::Bare => {
            need(1)?;
            put(&E::fb(vals[0]), writer, out)
        }
        Shape::Arr1 => {
            need(1)?;
            put(&[E::fb(vals[0])], writer, out)
        }
        Shape::Arr3 => {
            need(3)?;
            put(&[E::fb(vals[0]), E::fb(vals[1]), E::fb(vals[2])], writer, out)
        }
        Shape::Vec => put(&mk::<E>(vals), writer, out),
        Shape::Some => {
            need(1)?;
            put(&Some(E::fb(vals[0])), writer, out)
        }
        Shape::None => {
            need(0)?;
            put(&Option::<E>::None, writer, out)
        }
        Shape::Pair => {
            need(2)?;
            put(&(E::fb(vals[0]), E::fb(vals[1])), writer, out)
        }
        Shape::Tup3 => {
            need(1)?;
            put(&(tup_head(vals[0]), E::fb(vals[0]), tup_tail(vals[0])), writer, out)
        }
        Shape::Boxed => {
            need(1)?;
            put(&Box::new(E::fb(vals[0])), writer, out)
        }
        Shape::Rec => {
            if vals.is_empty() || vals.len() > 2 {
                return Err("shape Rec needs 1 or 2 values".into());
            }
            put(&Rec { tag: tup_head(vals[0]), val: E::fb(vals[0]), opt: vals.get(1).map(|b| E::fb(*b)), tail: tup_tail(vals[0]) }, writer, out)
        }
        Shape::Sum => match vals.len() {
            0 => put(&Sum::<E>::Empty, writer, out),
            1 => put(&Sum::One(E::fb(vals[0])), writer, out),
            2 => put(&Sum::Two { a: E::fb(vals[0]), b: E::fb(vals[1]) }, writer, out),
            _ => Err("shape Sum needs 0..=2 values".into()),
        },
        Shape::Append => {
            // the stored bytes are extended in place, never decoded (StorageAppend pattern)
            let items = mk::<E>(vals);
            let mut stored: Vec<u8> = Vec::new();
            let mut at = 0usize;
            if splits.iter().map(|x| *x as usize).sum::<usize>() != items.len() {
                return Err("splits do not add up".into());
            }
            for s in splits {
                let s = *s as usize;
                stored = <Vec<E> as EncodeAppend>::append_or_new(stored, items[at..at + s].iter()).map_err(|e| format!("append_or_new: {}", e))?;
                at += s;
                let n = <Vec<E> as DecodeLength>::len(&stored).map_err(|e| format!("DecodeLength: {}", e))?;
                if n != at {
                    return Err(format!("DecodeLength::len = {} after appending {} items", n, at));
                }
            }
            if splits.is_empty() {
                stored = Vec::<E>::new().encode();
            }
            out.write(&stored);
            Ok(())
        }
    }
}

#[inline]
pub fn tup_head(v: u128) -> u8 {
    (v as u8) ^ 0x5a
}
#[inline]
pub fn tup_tail(v: u128) -> u16 {
    ((v >> 3) as u16) ^ 0xa5c3
}

/// Decode one value of any `Decode` type through the chosen codec entry point.
/// `Ok(None)`: consumed without producing a value (skip).
fn get<V: Decode>(reader: Reader, inp: &mut SimInput) -> Result<Option<V>, codec::Error> {
    match reader {
        Reader::Decode | Reader::IntegerTwin => V::decode(inp).map(Some),
        Reader::Skip => V::skip(inp).map(|_| None),
        Reader::DecodeLimit => V::decode_with_depth_limit(DEPTH_LIMIT, inp).map(Some),
        Reader::DecodeAll | Reader::DecodeAllLimit => {
            // these entry points take the remaining bytes as a slice
            let mut s: &[u8] = inp.rest();
            let before = s.len();
            let r = if reader == Reader::DecodeAll { V::decode_all(&mut s) } else { V::decode_all_with_depth_limit(DEPTH_LIMIT, &mut s) };
            inp.advance(before - s.len());
            if r.is_err() {
                inp.refused = true;
            }
            r.map(Some)
        }
        _ => Err("reader is not a codec reader".into()),
    }
}

pub fn dec_codec<E: Elem>(shape: Shape, reader: Reader, inp: &mut SimInput) -> Result<Option<Vec<u128>>, codec::Error> {
    Ok(match shape {
        Shape::Bare => get::<E>(reader, inp)?.map(|v| vec![v.tb()]),
        Shape::Arr1 => get::<[E; 1]>(reader, inp)?.map(|v| vec![v[0].tb()]),
        Shape::Arr3 => get::<[E; 3]>(reader, inp)?.map(|v| v.iter().map(|x| x.tb()).collect()),
        Shape::Vec | Shape::Append => get::<Vec<E>>(reader, inp)?.map(|v| v.iter().map(|x| x.tb()).collect()),
        Shape::Some | Shape::None => get::<Option<E>>(reader, inp)?.map(|v| v.iter().map(|x| x.tb()).collect()),
        Shape::Pair => get::<(E, E)>(reader, inp)?.map(|(a, b)| vec![a.tb(), b.tb()]),
        Shape::Tup3 => match get::<(u8, E, u16)>(reader, inp)? {
            Some((h, v, t)) => {
                // the foreign fields travel with the value so that a shifted read is visible
                Some(vec![v.tb(), h as u128, t as u128])
            }
            None => None,
        },
        Shape::Boxed => get::<Box<E>>(reader, inp)?.map(|v| vec![v.tb()]),
        Shape::Rec => get::<Rec<E>>(reader, inp)?.map(|r| {
            let mut v = vec![r.val.tb()];
            v.extend(r.opt.iter().map(|o| o.tb()));
            v.push(r.tag as u128);
            v.push(r.tail as u128);
            v
        }),
        Shape::Sum => get::<Sum<E>>(reader, inp)?.map(|s| match s {
            Sum::Empty => vec![],
            Sum::One(a) => vec![a.tb()],
            Sum::Two { a, b } => vec![a.tb(), b.tb()],
        }),
    })
}

pub fn mel_codec<E: Elem>(shape: Shape) -> Option<usize> {
    match shape {
        Shape::Bare => Some(E::max_encoded_len()),
        Shape::Arr1 => Some(<[E; 1]>::max_encoded_len()),
        Shape::Arr3 => Some(<[E; 3]>::max_encoded_len()),
        Shape::Some | Shape::None => Some(Option::<E>::max_encoded_len()),
        Shape::Pair => Some(<(E, E)>::max_encoded_len()),
        Shape::Tup3 => Some(<(u8, E, u16)>::max_encoded_len()),
        Shape::Boxed => Some(Box::<E>::max_encoded_len()),
        Shape::Rec => Some(Rec::<E>::max_encoded_len()),
        Shape::Sum => Some(Sum::<E>::max_encoded_len()),
        Shape::Vec | Shape::Append => None,
    }
}

/// (size_hint, encoded_size, encode().len()) of a bare value
pub fn sizes<E: Elem>(b: u128) -> (usize, usize, usize) {
    let v = E::fb(b);
    (v.size_hint(), v.encoded_size(), v.encode().len())
}

// ------------------------------------------------------------------ layout-specific paths

pub fn enc_lay<T: Lay>(vals: &[u128], splits: &[u8], shape: Shape, writer: Writer, out: &mut SimOutput) -> Result<(), String> {
    if writer == Writer::IntegerTwin {
        return enc_codec::<T::Int>(vals, splits, shape, Writer::EncodeTo, out);
    }
    if writer.container_ok() || !matches!(shape, Shape::Bare) {
        if !writer.container_ok() && !matches!(writer, Writer::Joiner | Writer::KeyedVec) {
            return Err(format!("writer {:?} only applies to bare records", writer));
        }
        return enc_codec::<T>(vals, splits, shape, writer, out);
    }
    if vals.len() != 1 {
        return Err("bare record needs one value".into());
    }
    let v = T::fb(vals[0]);
    match writer {
        Writer::Joiner | Writer::KeyedVec => return enc_codec::<T>(vals, splits, shape, writer, out),
        Writer::ToLeBytes => out.write(&v.le()),
        Writer::ToBeBytesReversed => {
            let mut b = v.be();
            b.reverse();
            out.write(&b)
        }
        Writer::ToNeBytes => {
            let mut b = v.ne();
            if cfg!(target_endian = "big") {
                b.reverse();
            }
            out.write(&b)
        }
        Writer::TraitToLeBytes => out.write(&v.tle()),
        Writer::TraitToBeBytesReversed => {
            let mut b = v.tbe();
            b.reverse();
            out.write(&b)
        }
        Writer::TraitToNeBytes => {
            let mut b = v.tne();
            if cfg!(target_endian = "big") {
                b.reverse();
            }
            out.write(&b)
        }
        _ => unreachable!(),
    }
    Ok(())
}

pub fn dec_lay<T: Lay>(shape: Shape, reader: Reader, inp: &mut SimInput) -> Result<Option<Vec<u128>>, codec::Error> {
    match reader {
        Reader::IntegerTwin => return dec_codec::<T::Int>(shape, Reader::Decode, inp),
        Reader::Metadata => return crate::meta::decode_by_metadata::<T>(shape, inp).map(Some),
        Reader::ViaArray1 if shape == Shape::Bare => return dec_codec::<T>(Shape::Arr1, Reader::Decode, inp),
        Reader::ViaBox if shape == Shape::Bare => return dec_codec::<T>(Shape::Boxed, Reader::Decode, inp),
        _ => {}
    }
    if reader.container_ok() {
        return dec_codec::<T>(shape, reader, inp);
    }
    if shape != Shape::Bare {
        return Err("byte-view readers only apply to bare records".into());
    }
    if reader == Reader::HandLe {
        // a foreign implementation: bytes one at a time, least significant first
        let mut acc: u128 = 0;
        for i in 0..T::WB {
            let b = inp.read_byte()?;
            acc |= (b as u128) << (8 * i);
        }
        return Ok(Some(vec![acc]));
    }
    let mut raw = [0u8; 16];
    let raw = &mut raw[..T::WB];
    inp.read(raw)?;
    let v = match reader {
        Reader::FromLeBytes => T::from_le(raw),
        Reader::FromBeBytesReversed => {
            raw.reverse();
            T::from_be(raw)
        }
        Reader::FromNeBytes => {
            if cfg!(target_endian = "big") {
                raw.reverse();
            }
            T::from_ne(raw)
        }
        Reader::TraitFromLeBytes => T::tfrom_le(raw),
        Reader::TraitFromBeBytesReversed => {
            raw.reverse();
            T::tfrom_be(raw)
        }
        Reader::TraitFromNeBytes => {
            if cfg!(target_endian = "big") {
                raw.reverse();
            }
            T::tfrom_ne(raw)
        }
        _ => return Err("unsupported reader".into()),
    };
    Ok(Some(vec![v.tb()]))
}

/// B1: byte-view and bits algebra on one bit pattern and one arbitrary byte string.
pub fn byte_view_algebra<T: Lay>(bits: u128, raw: &[u8]) -> Result<(), String> {
    let wb = T::WB;
    let mask = if wb == 16 { u128::MAX } else { (1u128 << (8 * wb)) - 1 };
    let bits = bits & mask;
    let model_le: Vec<u8> = (0..wb).map(|i| (bits >> (8 * i)) as u8).collect();
    let mut model_be = model_le.clone();
    model_be.reverse();
    let model_ne = if cfg!(target_endian = "little") { model_le.clone() } else { model_be.clone() };
    let v = T::fb(bits);
    macro_rules! chk {
        ($what:expr, $got:expr, $want:expr) => {
            if $got != $want {
                return Err(format!("{}: got {:x?}, want {:x?}", $what, $got, $want));
            }
        };
    }
    chk!("to_bits(from_bits(b))", v.tb(), bits);
    chk!("Fixed::to_bits(Fixed::from_bits(b))", T::tfb(bits).ttb(), bits);
    chk!("Fixed::from_bits vs inherent", T::tfb(bits).tb(), bits);
    chk!("Wrapping::to_bits(Wrapping::from_bits(b))", T::wtb(T::wfb(bits)), bits);
    chk!("Wrapping::from_bits(b).0", T::wfb(bits).0.tb(), bits);
    chk!("Wrapping(v).to_bits()", T::wtb(Wrapping(v)), bits);
    chk!("to_le_bytes", v.le(), model_le);
    chk!("to_be_bytes", v.be(), model_be);
    chk!("to_ne_bytes", v.ne(), model_ne);
    chk!("Fixed::to_le_bytes", v.tle(), model_le);
    chk!("Fixed::to_be_bytes", v.tbe(), model_be);
    chk!("Fixed::to_ne_bytes", v.tne(), model_ne);
    chk!("from_le_bytes(to_le_bytes)", T::from_le(&v.le()).tb(), bits);
    chk!("from_be_bytes(to_be_bytes)", T::from_be(&v.be()).tb(), bits);
    chk!("from_ne_bytes(to_ne_bytes)", T::from_ne(&v.ne()).tb(), bits);
    chk!("Fixed::from_le_bytes(model)", T::tfrom_le(&model_le).tb(), bits);
    chk!("Fixed::from_be_bytes(model)", T::tfrom_be(&model_be).tb(), bits);
    chk!("Fixed::from_ne_bytes(model)", T::tfrom_ne(&model_ne).tb(), bits);
    chk!("from_le_bytes(model)", T::from_le(&model_le).tb(), bits);
    chk!("from_be_bytes(model)", T::from_be(&model_be).tb(), bits);
    chk!("from_ne_bytes(model)", T::from_ne(&model_ne).tb(), bits);
    // the other direction, starting from an arbitrary byte string
    if raw.len() >= wb {
        let r = &raw[..wb];
        let as_le: u128 = r.iter().enumerate().fold(0u128, |a, (i, b)| a | ((*b as u128) << (8 * i)));
        let as_be: u128 = r.iter().fold(0u128, |a, b| (a << 8) | *b as u128);
        chk!("from_le_bytes(raw) value", T::from_le(r).tb(), as_le);
        chk!("from_be_bytes(raw) value", T::from_be(r).tb(), as_be);
        chk!("to_le_bytes(from_le_bytes(raw))", T::from_le(r).le(), r.to_vec());
        chk!("to_be_bytes(from_be_bytes(raw))", T::from_be(r).be(), r.to_vec());
        chk!("to_ne_bytes(from_ne_bytes(raw))", T::from_ne(r).ne(), r.to_vec());
        chk!("Fixed::to_le_bytes(Fixed::from_le_bytes(raw))", T::tfrom_le(r).tle(), r.to_vec());
        chk!("Fixed::to_be_bytes(Fixed::from_be_bytes(raw))", T::tfrom_be(r).tbe(), r.to_vec());
        chk!("Fixed::to_ne_bytes(Fixed::from_ne_bytes(raw))", T::tfrom_ne(r).tne(), r.to_vec());
    }
    Ok(())
}

// ------------------------------------------------------------------ exhaustive 32-bit sweep (lean)

/// Minimal sink for the lean sweep (no logging): the bytes of one value.
pub struct ArrOut {
    pub buf: [u8; 24],
    pub n: usize,
}
impl Output for ArrOut {
    #[inline]
    fn write(&mut self, bytes: &[u8]) {
        let at = self.n.min(self.buf.len());
        let k = bytes.len().min(self.buf.len() - at);
        self.buf[at..at + k].copy_from_slice(&bytes[..k]);
        self.n = self.n.saturating_add(bytes.len());
    }
}

/// Every bit pattern in `lo..=hi` of a 32-bit layout through the canonical pair: `encode_to` must write
/// exactly the four little-endian bytes, `decode` of them must return the bits and consume all four,
/// and (for one pattern in 256) the three-byte prefix must fail. Returns the first offending pattern. Lean on purpose (a few
/// nanoseconds per pattern); anything it finds is re-executed as an ordinary one-record history.
/// One bit pattern through the canonical pair and the byte views, allocation-free: `encode_to` writes
/// exactly the width/8 little-endian bytes, `decode` of them returns the bits and consumes them all, the
/// byte-view / bits algebra holds (`views_ok`), and — if `short` — the width/8 - 1 byte prefix fails
/// (building the codec error allocates, so callers ask for that on a fraction of the patterns).
#[inline]
pub fn lean_one<T: Lay>(bits: u128, short: bool) -> bool {
    let wb = T::WB;
    let x = T::fb(bits);
    let mut out = ArrOut { buf: [0; 24], n: 0 };
    x.encode_to(&mut out);
    let mut le = [0u8; 16];
    let mut k = 0;
    while k < wb {
        le[k] = (bits >> (8 * k)) as u8;
        k += 1;
    }
    let mut ok = out.n == wb && out.buf[..wb] == le[..wb];
    if ok {
        let mut s: &[u8] = &le[..wb];
        ok = matches!(T::decode(&mut s), Ok(y) if y.tb() == bits) && s.is_empty();
    }
    ok = ok && T::views_ok(bits);
    if ok && short {
        let mut s: &[u8] = &le[..wb - 1];
        ok = T::decode(&mut s).is_err();
    }
    ok
}

pub fn sweep32<T: Lay>(lo: u32, hi: u32) -> Option<u32> {
    if T::W != 32 {
        return None;
    }
    let mut v = lo;
    loop {
        let ok = lean_one::<T>(v as u128, v & 0xff == 0x5a);
        if !ok {
            return Some(v);
        }
        if v == hi {
            return None;
        }
        v += 1;
    }
}

// ------------------------------------------------------------------ EncodeLike relations (type-level seam)

/// `EncodeLike<T>` is a promise to generic storage APIs (`fn put<V: EncodeLike<T>>(v: V)`) that `V`'s
/// bytes are a valid encoding of `T`. The relation is declared by trait impls, so it can only be
/// observed at a concrete type: the probe below uses autoref-based selection, which picks `ElYes` when
/// `A: EncodeLike<B>` holds at the expansion site and `ElNo` otherwise. It is therefore expanded by the
/// `el_check!` macro inside the generated table, once per layout and primitive integer.
pub struct ElWrap<A, B>(pub core::marker::PhantomData<(A, B)>);
pub trait ElYes {
    /// (the relation is declared, what is wrong with it)
    fn check(&self, bits: u128, what: &str) -> (bool, Option<String>);
}
impl<A: codec::EncodeLike<B> + Elem, B: Elem> ElYes for ElWrap<A, B> {
    fn check(&self, bits: u128, what: &str) -> (bool, Option<String>) {
        fn store<V: codec::EncodeLike<B>, B: Encode>(v: &V, out: &mut Vec<u8>) {
            // what a storage API does with an `EncodeLike<B>` argument
            v.encode_to(out)
        }
        let mut out = Vec::new();
        store::<A, B>(&A::fb(bits), &mut out);
        (true, el_verify::<B>(what, &out, bits, A::WB))
    }
}
pub trait ElNo {
    fn check(&self, bits: u128, what: &str) -> (bool, Option<String>);
}
impl<A, B> ElNo for &ElWrap<A, B> {
    fn check(&self, _: u128, _: &str) -> (bool, Option<String>) {
        (false, None)
    }
}

/// Bytes stored through a declared relation into a slot of type `S` must decode as `S`, consume
/// everything, and (same width) carry the same bits.
pub fn el_verify<S: Elem>(what: &str, bytes: &[u8], bits: u128, peer_wb: usize) -> Option<String> {
    let mut s: &[u8] = bytes;
    match S::decode(&mut s) {
        Ok(_) if !s.is_empty() => Some(format!("{} is declared, but storing through it wrote {} bytes where the slot type takes {} ({} left over)", what, bytes.len(), S::WB, s.len())),
        Ok(v) => {
            let mask = if peer_wb.min(S::WB) >= 16 { u128::MAX } else { (1u128 << (8 * peer_wb.min(S::WB))) - 1 };
            if peer_wb == S::WB && v.tb() & mask != bits & mask {
                Some(format!("{} is declared, but bits {:#x} stored through it read back as {:#x}", what, bits & mask, v.tb()))
            } else {
                None
            }
        }
        Err(e) => Some(format!("{} is declared, but storing through it wrote {} bytes ({:02x?}) which do not decode as the slot type ({} bytes): {}", what, bytes.len(), bytes, S::WB, e)),
    }
}

/// Optional codec surface: `Wrapping<F>` has no `Encode`/`Decode` today, so C10's "and Wrapping<F>" is
/// vacuous for the wire format. If a change adds them, they must be the plain bits too. Probed with the
/// same autoref selection.
pub struct WrWrap<T>(pub core::marker::PhantomData<T>);
pub trait WrYes {
    fn check(&self, bits: u128, name: &str) -> Option<String>;
}
impl<T: Lay> WrYes for WrWrap<T>
where
    Wrapping<T>: Encode + Decode,
{
    fn check(&self, bits: u128, name: &str) -> Option<String> {
        let w = Wrapping(T::fb(bits));
        let got = w.encode();
        let want: Vec<u8> = (0..T::WB).map(|i| (bits >> (8 * i)) as u8).collect();
        if got != want {
            return Some(format!("Wrapping<{}> has a SCALE codec, but it encodes bits {:#x} as {:02x?}, not as the plain little-endian bytes {:02x?}", name, bits, got, want));
        }
        if w.encoded_size() != T::WB {
            return Some(format!("Wrapping<{}>::encoded_size() = {}, width/8 = {}", name, w.encoded_size(), T::WB));
        }
        let mut s: &[u8] = &want;
        match <Wrapping<T> as Decode>::decode(&mut s) {
            Ok(v) if v.0.tb() == bits && s.is_empty() => {}
            other => return Some(format!("Wrapping<{}> has a SCALE codec, but decoding the plain bytes {:02x?} gave {:?} with {} bytes left", name, want, other.map(|v| v.0.tb()).map_err(|e| e.to_string()), s.len())),
        }
        for cut in 0..T::WB {
            let mut s: &[u8] = &want[..cut];
            if <Wrapping<T> as Decode>::decode(&mut s).is_ok() {
                return Some(format!("Wrapping<{}>: decoding {} of {} bytes succeeded", name, cut, T::WB));
            }
        }
        None
    }
}
pub trait WrNo {
    fn check(&self, bits: u128, name: &str) -> Option<String>;
}
impl<T> WrNo for &WrWrap<T> {
    fn check(&self, _: u128, _: &str) -> Option<String> {
        None
    }
}

// ---- compound peers: tuples and byte arrays (family level, evaluated once per thread)

/// Anything that can sit on either side of a relation in the compound probe.
pub trait Slot: Encode + Decode + 'static {
    const SWB: usize;
    fn sfb(b: u128) -> Self;
}
impl<E: Elem> Slot for E {
    const SWB: usize = E::WB;
    fn sfb(b: u128) -> Self {
        E::fb(b)
    }
}
impl<A: Elem, B: Elem> Slot for (A, B) {
    const SWB: usize = A::WB + B::WB;
    fn sfb(b: u128) -> Self {
        (A::fb(b), B::fb(b.rotate_right(8 * A::WB as u32)))
    }
}
impl<const N: usize> Slot for [u8; N] {
    const SWB: usize = N;
    fn sfb(b: u128) -> Self {
        let mut a = [0u8; N];
        for (i, x) in a.iter_mut().enumerate() {
            *x = (b >> (8 * (i % 16))) as u8;
        }
        a
    }
}
pub struct SlWrap<A, B>(pub core::marker::PhantomData<(A, B)>);
pub trait SlYes {
    fn check(&self, bits: u128, what: &str) -> (bool, Option<String>);
}
impl<A: codec::EncodeLike<B> + Slot, B: Slot> SlYes for SlWrap<A, B> {
    fn check(&self, bits: u128, what: &str) -> (bool, Option<String>) {
        fn store<V: codec::EncodeLike<B>, B: Encode>(v: &V, out: &mut Vec<u8>) {
            v.encode_to(out)
        }
        let mut out = Vec::new();
        store::<A, B>(&A::sfb(bits), &mut out);
        let mut s: &[u8] = &out;
        let r = match B::decode(&mut s) {
            Ok(_) if s.is_empty() => None,
            Ok(_) => Some(format!("{} is declared, but storing through it wrote {} bytes where the slot type takes {} ({} left over)", what, out.len(), B::SWB, s.len())),
            Err(e) => Some(format!("{} is declared, but storing through it wrote {} bytes ({:02x?}) which do not decode as the slot type ({} bytes): {}", what, out.len(), out, B::SWB, e)),
        };
        (true, r)
    }
}
pub trait SlNo {
    fn check(&self, bits: u128, what: &str) -> (bool, Option<String>);
}
impl<A, B> SlNo for &SlWrap<A, B> {
    fn check(&self, _: u128, _: &str) -> (bool, Option<String>) {
        (false, None)
    }
}

macro_rules! sl_pair {
    ($found:ident, $n:ident, $bits:ident; $A:ty, $B:ty) => {
        if $found.is_none() {
            let (d, r) = (&SlWrap::<$A, $B>(core::marker::PhantomData)).check($bits, concat!(stringify!($A), ": EncodeLike<", stringify!($B), ">"));
            $n += d as u32;
            $found = r;
        }
        if $found.is_none() {
            let (d, r) = (&SlWrap::<$B, $A>(core::marker::PhantomData)).check($bits, concat!(stringify!($B), ": EncodeLike<", stringify!($A), ">"));
            $n += d as u32;
            $found = r;
        }
    };
}
macro_rules! sl_tuples {
    ($found:ident, $n:ident, $bits:ident; $S:ty; [$($A:ty),*]; $Bs:tt) => {$( sl_tuples!(@row $found, $n, $bits; $S; $A; $Bs); )*};
    (@row $found:ident, $n:ident, $bits:ident; $S:ty; $A:ty; [$($B:ty),*]) => {$( sl_pair!($found, $n, $bits; ($A, $B), $S); )*};
}
macro_rules! sl_slots {
    ($found:ident, $n:ident, $bits:ident; [$($S:ty),*]) => {$(
        sl_tuples!($found, $n, $bits; $S; [FI8, FI16, FI32, FI64, FI128, FU8, FU16, FU32, FU64, FU128]; [FI8, FI16, FI32, FI64, FI128, FU8, FU16, FU32, FU64, FU128]);
        sl_tuples!($found, $n, $bits; $S; [i8, i16, i32, i64, i128, u8, u16, u32, u64, u128]; [i8, i16, i32, i64, i128, u8, u16, u32, u64, u128]);
        sl_pair!($found, $n, $bits; [u8; 1], $S);
        sl_pair!($found, $n, $bits; [u8; 2], $S);
        sl_pair!($found, $n, $bits; [u8; 4], $S);
        sl_pair!($found, $n, $bits; [u8; 8], $S);
        sl_pair!($found, $n, $bits; [u8; 16], $S);
    )*};
}
type FU0 = substrate_fixed::types::extra::U0;
type FI8 = FixedI8<FU0>;
type FI16 = FixedI16<FU0>;
type FI32 = FixedI32<FU0>;
type FI64 = FixedI64<FU0>;
type FI128 = FixedI128<FU0>;
type FU8 = FixedU8<FU0>;
type FU16 = FixedU16<FU0>;
type FU32 = FixedU32<FU0>;
type FU64 = FixedU64<FU0>;
type FU128 = FixedU128<FU0>;

/// L1, compound peers: every declared `EncodeLike` relation between a fixed-point family and a pair of
/// fixed-point types, a pair of primitive integers or a byte array (both directions) stores bytes the
/// slot type reads completely. Returns (relations declared, first dishonest one). A function of the
/// types alone: evaluated once per thread.
pub fn el_compound_check() -> (u32, Option<String>) {
    use std::cell::RefCell;
    thread_local! {
        static SEEN: RefCell<Option<(u32, Option<String>)>> = RefCell::new(None);
    }
    if let Some(r) = SEEN.with(|s| s.borrow().clone()) {
        return r;
    }
    let bits: u128 = 0x100f_0e0d_0c0b_0a09_0807_0605_0403_0201;
    let mut found: Option<String> = None;
    let mut n = 0u32;
    sl_slots!(found, n, bits; [FI8, FI16, FI32, FI64, FI128, FU8, FU16, FU32, FU64, FU128]);
    let r = (n, found);
    SEEN.with(|s| *s.borrow_mut() = Some(r.clone()));
    r
}

#[macro_export]
macro_rules! el_check {
    ($T:ty, $bits:expr) => {{
        #[allow(unused_imports)]
        use $crate::lay::{ElNo as _, ElYes as _, WrNo as _, WrYes as _};
        type Fr = <$T as substrate_fixed::traits::Fixed>::Frac;
        type U0 = substrate_fixed::types::extra::U0;
        let bits: u128 = $bits;
        let mut found: Option<String> = (&$crate::lay::WrWrap::<$T>(core::marker::PhantomData)).check(bits, stringify!($T));
        // relations with the primitive integers ...
        $crate::el_check!(@pair $T, bits, found; i8 i16 i32 i64 i128 u8 u16 u32 u64 u128);
        // ... and with fixed-point types of every family (no fractional bits / this layout's own count):
        // within a family the bytes are the same and any relation is honest, across families it is not
        $crate::el_check!(@pair $T, bits, found;
            substrate_fixed::FixedI8<U0> substrate_fixed::FixedI16<U0> substrate_fixed::FixedI32<U0> substrate_fixed::FixedI64<U0> substrate_fixed::FixedI128<U0>
            substrate_fixed::FixedU8<U0> substrate_fixed::FixedU16<U0> substrate_fixed::FixedU32<U0> substrate_fixed::FixedU64<U0> substrate_fixed::FixedU128<U0>
            substrate_fixed::FixedI8<Fr> substrate_fixed::FixedI16<Fr> substrate_fixed::FixedI32<Fr> substrate_fixed::FixedI64<Fr> substrate_fixed::FixedI128<Fr>
            substrate_fixed::FixedU8<Fr> substrate_fixed::FixedU16<Fr> substrate_fixed::FixedU32<Fr> substrate_fixed::FixedU64<Fr> substrate_fixed::FixedU128<Fr>);
        found
    }};
    (@pair $T:ty, $bits:ident, $found:ident; $($I:ty)*) => {$(
        if $found.is_none() {
            $found = (&$crate::lay::ElWrap::<$I, $T>(core::marker::PhantomData)).check($bits, concat!(stringify!($I), ": EncodeLike<", stringify!($T), ">")).1;
        }
        if $found.is_none() {
            $found = (&$crate::lay::ElWrap::<$T, $I>(core::marker::PhantomData)).check($bits, concat!(stringify!($T), ": EncodeLike<", stringify!($I), ">")).1;
        }
    )*};
}

// ------------------------------------------------------------------ dispatch table

#[derive(Clone, Copy)]
pub struct Ops {
    pub name: &'static str,
    /// 0..=4 signed 8..128, 5..=9 unsigned 8..128
    pub fam: u8,
    pub signed: bool,
    pub w: u32,
    pub frac: u32,
    /// fractional bits the library itself reports for this alias
    pub frac_reported: fn() -> u32,
    pub struct_name: &'static str,
    pub enc: fn(&[u128], &[u8], Shape, Writer, &mut SimOutput) -> Result<(), String>,
    pub enc_twin: fn(&[u128], &[u8], Shape, Writer, &mut SimOutput) -> Result<(), String>,
    pub dec: fn(Shape, Reader, &mut SimInput) -> Result<Option<Vec<u128>>, codec::Error>,
    pub dec_twin: fn(Shape, Reader, &mut SimInput) -> Result<Option<Vec<u128>>, codec::Error>,
    pub mel: fn(Shape) -> Option<usize>,
    pub mel_twin: fn(Shape) -> Option<usize>,
    pub sizes: fn(u128) -> (usize, usize, usize),
    pub b1: fn(u128, &[u8]) -> Result<(), String>,
    pub sweep32: fn(u32, u32) -> Option<u32>,
    /// the lean per-pattern check behind the sweeps (bits, also check the short prefix)
    pub lean: fn(u128, bool) -> bool,
    /// L1: every declared `EncodeLike` relation between this layout and a primitive integer is honest
    /// (filled in by the generated table, where the layout is a concrete type)
    pub el_check: fn(u128) -> Option<String>,
    pub serde: crate::serde_tok::SerdeOps,
    pub meta_check: fn() -> Result<(), String>,
}
impl Ops {
    #[inline]
    pub fn wb(&self) -> usize {
        (self.w / 8) as usize
    }
    #[inline]
    pub fn mask(&self) -> u128 {
        if self.w == 128 {
            u128::MAX
        } else {
            (1u128 << self.w) - 1
        }
    }
}

pub fn ops<T: LayAll>(name: &'static str, fam: u8, frac: u32) -> Ops {
    Ops {
        name,
        fam,
        signed: T::SIGNED,
        w: T::W,
        frac,
        frac_reported: || <T as Fixed>::frac_nbits(),
        struct_name: T::STRUCT_NAME,
        enc: enc_lay::<T>,
        enc_twin: enc_codec::<T::Int>,
        dec: dec_lay::<T>,
        dec_twin: dec_codec::<T::Int>,
        mel: mel_codec::<T>,
        mel_twin: mel_codec::<T::Int>,
        sizes: sizes::<T>,
        b1: byte_view_algebra::<T>,
        sweep32: sweep32::<T>,
        lean: lean_one::<T>,
        el_check: |_| None,
        serde: crate::serde_tok::serde_ops::<T>(),
        meta_check: crate::meta::check_metadata::<T>,
    }
}
