fn main(){}
